//! C20: single-threaded runs are reproducible bit for bit.
//! Parent mode (default): runs the transcript twice in-process and in child processes with
//! different address-space layouts / environments, and compares the transcripts byte for byte.
//! Child mode (`--child <file>`): writes the transcript of all programs to <file>.
//!
//! A transcript holds, per program and per command: the command's Display output (extracted
//! terms, printed tables in their order, sizes, error texts) and, for run commands, the run report
//! without timings (updated, can_stop, #iterations, matches per rule in the report's own order),
//! and at the end of each program the raw table dump (raw ids, row order).
use std::collections::BTreeMap;
use std::fmt::Write as _;
use verif_harness::egg::*;
use verif_harness::egg_gen::*;
use verif_harness::util::*;

fn report_text(r: &egglog_reports::RunReport) -> String {
    let mut s = format!("report updated={} can_stop={} iterations={}", r.updated, r.can_stop, r.iterations.len());
    for (k, v) in r.num_matches_per_rule.iter() {
        let _ = write!(s, " [{}:{}]", k.replace('\n', " "), v);
    }
    s
}

fn out_text(o: &egglog::CommandOutput) -> String {
    match o {
        egglog::CommandOutput::RunSchedule(r) => report_text(r),
        egglog::CommandOutput::OverallStatistics(r) => report_text(r),
        other => format!("{other}"),
    }
}

fn programs(seed: u64, thorough: bool) -> Vec<(String, Vec<String>, Option<Program>)> {
    let mut v = Vec::new();
    let n = if thorough { 1200 } else { 160 };
    for ci in 0..n {
        let mut r = Rng::for_case(seed, ci as u64);
        let bias = [Bias::C01, Bias::C03, Bias::C05, Bias::C13][ci % 4];
        let k = r.range(4, 14);
        let p = Gen::new(&mut r, bias).program(k);
        let mut cmds: Vec<String> = vec![p.header()];
        for c in &p.cmds {
            cmds.push(p.cmd_text(c));
        }
        // outputs: every table printed, sizes, extraction of a few probes (ties included)
        for d in &p.decls {
            cmds.push(format!("(print-function {} 100)", d.name));
        }
        cmds.push("(print-size)".into());
        for pr in enumerate_probes(&p, 2, 12, &[0, 1]).iter().take(6) {
            cmds.push(format!("(extract {})", p.pat_text(pr)));
            cmds.push(format!("(extract {} 3)", p.pat_text(pr)));
        }
        v.push((format!("gen seed={seed} case={ci}"), cmds, Some(p)));
    }
    // fixed shapes whose output depends on the ORDER in which the rules of one iteration run:
    // nested combined rulesets reaching a sub-ruleset through two paths, `:merge new` written by
    // several rules, print-function row order, extraction ties between rows created by different rules
    for width in [3usize, 5, 8] {
        let mut t = String::from("(function f () i64 :merge new)\n(datatype T");
        for i in 0..width {
            t.push_str(&format!(" (A{i})"));
        }
        t.push_str(" (Pick T))\n(relation fired (T))\n(relation go ())\n(go)\n");
        for i in 0..width {
            t.push_str(&format!("(ruleset r{i})\n(rule ((go)) ((set (f) {i}) (fired (A{i})) (union (Pick (A0)) (A{i}))) :ruleset r{i})\n"));
        }
        for i in 0..width - 1 {
            t.push_str(&format!("(unstable-combined-ruleset c{i} r{i} r{})\n", i + 1));
        }
        t.push_str("(unstable-combined-ruleset all");
        for i in 0..width - 1 {
            t.push_str(&format!(" c{i}"));
        }
        t.push_str(")\n(run all 1)\n(print-function fired 100)\n(print-function f 10)\n(extract (Pick (A0)))\n(extract (Pick (A0)) 4)\n(print-size)\n");
        v.push((format!("fixed diamond-combined-rulesets width={width}"), vec![t], None));
    }
    // containers rewritten in place by a union: the order in which dirty container ids reach the
    // parent-row refresh follows the shard walk of the container maps, whose shard count depends on
    // the CPUs available to the process (children run under different CPU affinities)
    for n in [2usize, 3, 5, 8, 11, 14, 16] {
        for (kind, of) in [("Vec", "vec-of"), ("Set", "set-of")] {
            let mut t = format!("(datatype E (A i64) (B i64))\n(sort CE ({kind} E))\n(constructor P (CE) E)\n");
            for i in 1..=n {
                t.push_str(&format!("(B {i})\n"));
            }
            for i in 1..=n {
                t.push_str(&format!("(P ({of} (A {i})))\n"));
            }
            t.push_str(&format!("(rule ((= x (A i)) (= y (B i))) ((union x y)))\n(run 1)\n(print-size P)\n(print-function P 100)\n(extract (P ({of} (A 1))))\n(extract (P ({of} (A {n}))) 3)\n"));
            v.push((format!("fixed containers-rewritten-in-place kind={kind} n={n}"), vec![t], None));
        }
    }
    // the repository's own small test programs, as whole files
    let mut files: Vec<std::path::PathBuf> = std::fs::read_dir("/repo/tests")
        .map(|rd| rd.flatten().map(|e| e.path()).filter(|p| p.extension().map(|x| x == "egg").unwrap_or(false)).collect())
        .unwrap_or_default();
    files.sort();
    let max = if thorough { 200 } else { 40 };
    let mut taken = 0;
    for f in files {
        if taken >= max {
            break;
        }
        let Ok(txt) = std::fs::read_to_string(&f) else { continue };
        if txt.len() > if thorough { 20000 } else { 3500 } || txt.contains("(include") || txt.contains("(input") || txt.contains("(output") {
            continue;
        }
        taken += 1;
        v.push((format!("file {}", f.display()), vec![txt], None));
    }
    v
}

fn transcript(seed: u64, thorough: bool) -> (Vec<String>, BTreeMap<String, usize>) {
    std::panic::set_hook(Box::new(|_| {}));
    let mut lines = Vec::new();
    let mut hist: BTreeMap<String, usize> = BTreeMap::new();
    for (tag, cmds, prog) in programs(seed, thorough) {
        let mut t = format!("## {tag}\n");
        let mut eg = egglog::EGraph::default();
        let mut rows_out = 0usize;
        for c in &cmds {
            let (res, panicked) = step(&mut eg, c);
            match res {
                Ok(outs) => {
                    for o in &outs {
                        let s = out_text(o);
                        rows_out += s.lines().count();
                        t.push_str(&s);
                        if !s.ends_with('\n') {
                            t.push('\n');
                        }
                    }
                    *hist.entry("ok".into()).or_insert(0) += 1;
                }
                Err(e) => {
                    let _ = writeln!(t, "error{}: {}", if panicked { "(panic)" } else { "" }, e);
                    *hist.entry(if panicked { "panic".into() } else { classify_error(&e) }).or_insert(0) += 1;
                }
            }
        }
        if let Some(p) = &prog {
            if let Ok(d) = dump(&eg, p) {
                for (f, tab) in d.tables.iter().enumerate() {
                    let _ = writeln!(t, "raw {} {:?}", p.decls[f].name, tab.iter().map(|r| (&r.args, &r.ret, r.sub)).collect::<Vec<_>>());
                }
            }
        }
        let _ = writeln!(t, "#rows {rows_out}");
        lines.push(t);
    }
    (lines, hist)
}

fn main() {
    let o = verif_harness::parse_opts();
    let mut child_out: Option<String> = None;
    let mut i = 0;
    while i < o.extra.len() {
        if o.extra[i] == "--child" {
            child_out = Some(o.extra[i + 1].clone());
            i += 1;
        }
        i += 1;
    }
    if let Some(path) = child_out {
        let (lines, _) = transcript(o.seed, o.thorough);
        std::fs::write(path, lines.join("\u{1}")).unwrap();
        return;
    }
    let abs_out = std::fs::canonicalize(&o.out).unwrap_or(o.out.clone());
    let (a, hist) = transcript(o.seed, o.thorough);
    let (b, _) = transcript(o.seed, o.thorough);
    let mut runs: Vec<(String, Vec<String>)> = vec![("in-process #1".into(), a.clone()), ("in-process #2".into(), b)];
    // child processes with different address-space layouts and environments
    let exe = std::env::current_exe().unwrap();
    let setarch_ok = std::process::Command::new("setarch").args(["-R", "true"]).status().map(|s| s.success()).unwrap_or(false);
    let taskset_ok = std::process::Command::new("taskset").args(["-c", "0", "true"]).status().map(|s| s.success()).unwrap_or(false);
    let configs: Vec<(&str, Vec<&str>, Vec<(&str, String)>)> = vec![
        ("child plain", vec![], vec![]),
        ("child no-ASLR + padded env", if setarch_ok { vec!["setarch", "-R"] } else { vec![] }, vec![("VERIF_PAD", "x".repeat(70000)), ("TZ", "Pacific/Kiritimati".into()), ("LANG", "tr_TR.UTF-8".into()), ("RUST_BACKTRACE", "1".into())]),
        ("child padded env 2", vec![], vec![("VERIF_PAD", "y".repeat(1234)), ("VERIF_PAD2", "z".repeat(33333)), ("TZ", "UTC".into()), ("MALLOC_PERTURB_", "165".into())]),
        // different numbers of CPUs available to the process (available_parallelism sizes sharded maps)
        ("child 1 cpu", if taskset_ok { vec!["taskset", "-c", "0"] } else { vec![] }, vec![]),
        ("child 2 cpus", if taskset_ok { vec!["taskset", "-c", "0-1"] } else { vec![] }, vec![]),
    ];
    let mut child_errors = Vec::new();
    for (ci, (name, wrapper, envs)) in configs.iter().enumerate() {
        let out = abs_out.join(format!("child_{ci}.txt"));
        let mut cmd = if let Some(w) = wrapper.first() {
            let mut c = std::process::Command::new(w);
            c.args(&wrapper[1..]).arg(&exe);
            c
        } else {
            std::process::Command::new(&exe)
        };
        cmd.args(["--out", abs_out.to_str().unwrap(), "--seed", &o.seed.to_string(), "--tier", if o.thorough { "thorough" } else { "quick" }, "--child", out.to_str().unwrap()]);
        for (k, v) in envs {
            cmd.env(k, v);
        }
        cmd.current_dir(if ci % 2 == 0 { "/" } else { "/tmp" });
        match cmd.status() {
            Ok(s) if s.success() => {
                let txt = std::fs::read_to_string(&out).unwrap_or_default();
                runs.push((name.to_string(), txt.split('\u{1}').map(|s| s.to_string()).collect()));
                let _ = std::fs::remove_file(&out);
            }
            other => child_errors.push(format!("{name}: {other:?}")),
        }
    }
    let mut viols = Vec::new();
    for (name, r) in runs.iter().skip(1) {
        if r.len() != a.len() {
            viols.push(serde_json::json!({"what": format!("{name}: {} programs in transcript, reference has {}", r.len(), a.len()), "key": "C20-transcript-length", "input": {}}));
            continue;
        }
        for (x, y) in a.iter().zip(r.iter()) {
            if x != y {
                let (lx, ly): (Vec<&str>, Vec<&str>) = (x.lines().collect(), y.lines().collect());
                let k = lx.iter().zip(ly.iter()).position(|(p, q)| p != q).unwrap_or(lx.len().min(ly.len()));
                viols.push(serde_json::json!({
                    "what": format!("{name} differs from in-process #1 on program `{}` at transcript line {k}: {:?} vs {:?}",
                                    lx.first().unwrap_or(&""), lx.get(k), ly.get(k)),
                    "key": "C20-nondeterministic-output",
                    "input": {"program_tag": lx.first().unwrap_or(&""), "reference": x, "other": y}
                }));
                break;
            }
        }
    }
    for e in &child_errors {
        viols.push(serde_json::json!({"what": format!("child process failed: {e}"), "key": "C20-child-failed", "input": {}}));
    }
    let nontrivial = a.iter().filter(|t| t.lines().last().and_then(|l| l.strip_prefix("#rows ")).and_then(|n| n.parse::<usize>().ok()).unwrap_or(0) >= 2).count();
    let mut distinct = std::collections::HashSet::new();
    for t in &a {
        distinct.insert(t.clone());
    }
    let rep = serde_json::json!({
        "sub": "repro",
        "cases": a.len(),
        "shards": 0,
        "distinct_nontrivial": nontrivial.min(distinct.len()),
        "rule": "generated sessions (4 biases) with every table printed, sizes, extract and extract-variants of probe terms, plus small test files of the repository; fixed families (diamond combined rulesets; containers rewritten in place by a union); each run twice in-process and in 5 child processes (ASLR off via setarch -R where permitted, padded/different environment, different cwd, TZ, LANG, 1 and 2 CPUs via taskset); non-trivial iff the program's output has >= 2 rows; distinct by transcript",
        "samples": [a.get(1).map(|s| s.chars().take(1200).collect::<String>())],
        "violations": viols,
        "outcome_hist": hist,
        "extra_coverage": {"runs_compared": runs.len(), "aslr_disabled_run": setarch_ok, "cpu_affinity_runs": taskset_ok, "configs": configs.iter().map(|c| c.0).collect::<Vec<_>>()}
    });
    std::fs::write(o.out.join("impl_report.json"), serde_json::to_string(&rep).unwrap()).unwrap();
}
