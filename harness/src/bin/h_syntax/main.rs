//! C15 link: (1) property predicate on the implementation — every tree the Rust parser returns
//! prints (`Display`) to text that parses back to the same tree (spans ignored); (2) cases for the
//! Gallina lexer / reader / printers / parser (coq/Syntax) recorded from the Rust ones, in both
//! directions; (3) desugared programs re-run on a fresh engine (files.rs).
mod files;
mod gen;
mod model;
use egglog::ast::*;
use gen::Src;
use model::*;
use std::collections::{BTreeMap, HashSet};
use std::panic::{catch_unwind, AssertUnwindSafe};
use std::sync::{Arc, Mutex};
use verif_harness::util::*;
use verif_harness::Opts;

static TOKENS_PARSED_AS_F64: std::sync::atomic::AtomicUsize = std::sync::atomic::AtomicUsize::new(0);
static DIGITLESS_FLOATS: Mutex<Vec<String>> = Mutex::new(Vec::new());

// ------------------------------------------------------------------ float tables
#[derive(Default)]
pub struct Orc {
    fmt: BTreeMap<u64, String>,
    parse: BTreeMap<String, MFl>,
}
fn is_delim(c: char) -> bool {
    c.is_whitespace() || c == ';' || c == '(' || c == ')'
}
impl Orc {
    /// every string the lexer could hand to `parse::<f64>` while reading `t`
    pub fn add_text(&mut self, t: &str) {
        for chunk in t.split(is_delim) {
            if chunk.is_empty() {
                continue;
            }
            self.add_token(chunk);
            for (i, c) in chunk.char_indices() {
                if c == '"' {
                    self.add_token(&chunk[i + 1..]);
                }
            }
        }
    }
    fn add_token(&mut self, s: &str) {
        if s.is_empty() || self.parse.contains_key(s) {
            return;
        }
        if let Ok(f) = s.parse::<f64>() {
            // hypothesis parse_digit of the grammar theorems
            TOKENS_PARSED_AS_F64.fetch_add(1, std::sync::atomic::Ordering::Relaxed);
            if f.is_finite() && !s.chars().any(|c| c.is_ascii_digit()) {
                DIGITLESS_FLOATS.lock().unwrap().push(s.to_string());
            }
            self.parse.insert(s.to_string(), MFl::of(f));
            self.add_float(f);
        }
    }
    pub fn add_float(&mut self, f: f64) {
        if f.is_finite() {
            self.fmt.insert(f.to_bits(), f.to_string());
        }
    }
    pub fn coq(&self) -> String {
        let a: Vec<String> = self.fmt.iter().map(|(b, s)| format!("({}%Z, {})", b, cstr(s))).collect();
        let b: Vec<String> = self.parse.iter().map(|(s, f)| format!("({}, Some {})", cstr(s), f.coq())).collect();
        format!("([{}], [{}])", a.join("; "), b.join("; "))
    }
}

// ------------------------------------------------------------------ calling the Rust parser
#[derive(Clone, Debug, PartialEq)]
pub enum PR<T> {
    Ok(T),
    Err(&'static str),
    Panicked(String),
}
fn err_kind(msg: &str) -> &'static str {
    if msg.contains("unexpected end of file") {
        "EEof"
    } else if msg.contains("string is missing end quote") {
        "ENoEndQuote"
    } else if msg.contains("unrecognized escape character") {
        "EBadEscape"
    } else if msg.contains("unexpected `)`") {
        "EUnexpectedClose"
    } else {
        "EGrammar"
    }
}
impl<T> PR<T> {
    fn coq(&self, f: impl Fn(&T) -> String) -> String {
        match self {
            PR::Ok(v) => format!("(POk {})", f(v)),
            PR::Err(k) => format!("(PErr {})", k),
            PR::Panicked(_) => "PFuel".into(),
        }
    }
    fn is_ok(&self) -> bool {
        matches!(self, PR::Ok(_))
    }
}
fn guarded<T>(f: impl FnOnce(&mut Parser) -> Result<T, ParseError>, chk: bool) -> PR<T> {
    let mut p = Parser::default();
    p.ensure_no_reserved_symbols = chk;
    match catch_unwind(AssertUnwindSafe(|| f(&mut p))) {
        Ok(Ok(v)) => PR::Ok(v),
        Ok(Err(e)) => PR::Err(err_kind(&e.1)),
        Err(p) => PR::Panicked(
            p.downcast_ref::<String>().cloned().or_else(|| p.downcast_ref::<&str>().map(|s| s.to_string())).unwrap_or_default(),
        ),
    }
}
pub fn parse_prog(t: &str, chk: bool) -> PR<Vec<Command>> {
    guarded(|p| p.get_program_from_string(None, t), chk)
}
fn map_pr<T, U>(r: &PR<T>, f: impl Fn(&T) -> U) -> PR<U> {
    match r {
        PR::Ok(v) => PR::Ok(f(v)),
        PR::Err(k) => PR::Err(k),
        PR::Panicked(s) => PR::Panicked(s.clone()),
    }
}

// ------------------------------------------------------------------ known lossy behaviours
fn special(s: &str) -> bool {
    s.contains('"') || s.contains('\\')
}
#[derive(Default, Debug)]
struct Features {
    panic_special: bool,
    rule_name_special: bool,
    variant_unextractable: bool,
    rewrite_name: bool,
    schedule: bool,
    print_stats_file: bool,
    file_bad_debug: bool,
    colon_symbol: bool,
    reserved_var: bool,
}
fn bad_debug(f: &str) -> bool {
    // `{:?}` output the lexer does not read back: any escape other than \n \t \\ \"
    format!("{:?}", f).replace("\\\\", "").replace("\\\"", "").replace("\\n", "").replace("\\t", "").contains('\\')
}
fn feat_expr(e: &MExpr, ft: &mut Features) {
    match e {
        MExpr::Var(v) => {
            ft.colon_symbol |= v.starts_with(':');
            ft.reserved_var |= v.starts_with('@');
        }
        MExpr::Call(_, a) => a.iter().for_each(|x| feat_expr(x, ft)),
        MExpr::Lit(_) => {}
    }
}
fn feat_fact(f: &MFact, ft: &mut Features) {
    match f {
        MFact::Eq(a, b) => {
            feat_expr(a, ft);
            feat_expr(b, ft)
        }
        MFact::Fact(e) => feat_expr(e, ft),
    }
}
fn feat_action(a: &MAction, ft: &mut Features) {
    match a {
        MAction::Panic(m) => ft.panic_special |= special(m),
        MAction::Let(v, e) => {
            ft.reserved_var |= v.starts_with('@');
            feat_expr(e, ft)
        }
        MAction::Expr(e) => feat_expr(e, ft),
        MAction::Set(_, a, v) => {
            a.iter().for_each(|x| feat_expr(x, ft));
            feat_expr(v, ft)
        }
        MAction::Change(_, _, a) => a.iter().for_each(|x| feat_expr(x, ft)),
        MAction::Union(a, b) => {
            feat_expr(a, ft);
            feat_expr(b, ft)
        }
    }
}
fn feat_sched(s: &MSched, ft: &mut Features) {
    match s {
        MSched::Saturate(x) | MSched::Repeat(_, x) => feat_sched(x, ft),
        MSched::Run(rs, u) => {
            ft.colon_symbol |= rs.starts_with(':');
            if let Some(u) = u {
                u.iter().for_each(|f| feat_fact(f, ft))
            }
        }
        MSched::Seq(l) => l.iter().for_each(|x| feat_sched(x, ft)),
    }
}
fn features(c: &MCmd, ft: &mut Features) {
    let colon = |xs: &[&String]| xs.iter().any(|s| s.starts_with(':'));
    match c {
        MCmd::Rule(r) => {
            ft.rule_name_special |= special(&r.name);
            ft.colon_symbol |= r.ruleset.starts_with(':');
            r.head.iter().for_each(|a| feat_action(a, ft));
            r.body.iter().for_each(|f| feat_fact(f, ft));
        }
        MCmd::Action(a) => feat_action(a, ft),
        MCmd::Datatype(_, vs) => ft.variant_unextractable |= vs.iter().any(|v| v.unextractable),
        MCmd::Datatypes(ds) => {
            for (_, d) in ds {
                match d {
                    MSubdt::Variants(vs) => ft.variant_unextractable |= vs.iter().any(|v| v.unextractable),
                    MSubdt::NewSort(_, a) => a.iter().for_each(|x| feat_expr(x, ft)),
                }
            }
        }
        MCmd::Rewrite(rs, w, _) | MCmd::BiRewrite(rs, w) => {
            ft.rewrite_name |= !w.name.is_empty();
            ft.colon_symbol |= rs.starts_with(':');
            feat_expr(&w.lhs, ft);
            feat_expr(&w.rhs, ft);
            w.conds.iter().for_each(|f| feat_fact(f, ft));
        }
        MCmd::RunSchedule(s) => {
            ft.schedule = true;
            feat_sched(s, ft)
        }
        MCmd::PrintStats(Some(_)) => ft.print_stats_file = true,
        MCmd::PrintFunction(_, _, Some(f), _) | MCmd::Input(_, f) | MCmd::Include(f) => ft.file_bad_debug |= bad_debug(f),
        MCmd::Output(f, e) => {
            ft.file_bad_debug |= bad_debug(f);
            e.iter().for_each(|x| feat_expr(x, ft))
        }
        MCmd::Fail(c) => features(c, ft),
        MCmd::Function { merge: Some(e), term_constructor, .. } => {
            feat_expr(e, ft);
            if let Some(t) = term_constructor {
                ft.colon_symbol |= colon(&[t]);
            }
        }
        MCmd::Sort { presort, uf, proof_func, .. } => {
            if let Some((_, a)) = presort {
                a.iter().for_each(|x| feat_expr(x, ft))
            }
            if let Some((c, i)) = uf {
                ft.colon_symbol |= c.starts_with(':') || i.as_ref().is_some_and(|s| s.starts_with(':'));
            }
            if let Some(p) = proof_func {
                ft.colon_symbol |= p.starts_with(':');
            }
        }
        MCmd::Extract(e, v) => {
            feat_expr(e, ft);
            feat_expr(v, ft)
        }
        MCmd::Check(f) | MCmd::Prove(f) => f.iter().for_each(|x| feat_fact(x, ft)),
        MCmd::CombinedRuleset(_, s) => ft.colon_symbol |= s.iter().any(|x| x.starts_with(':')),
        _ => {}
    }
}
/// what the parser makes of a printed schedule: saturate/repeat/run-schedule re-wrap in `seq`
fn rewrap(s: &MSched) -> MSched {
    match s {
        MSched::Saturate(x) => MSched::Saturate(Box::new(MSched::Seq(vec![rewrap(x)]))),
        MSched::Repeat(n, x) => MSched::Repeat(*n, Box::new(MSched::Seq(vec![rewrap(x)]))),
        MSched::Run(..) => s.clone(),
        MSched::Seq(l) => MSched::Seq(l.iter().map(rewrap).collect()),
    }
}
/// the tree the parser is known to return for the printed text: only the schedule re-wrapping
/// (findings 3,4 of the first round — variant :unextractable, rewrite :name — are repaired)
fn expected_after(c: &MCmd) -> MCmd {
    match c {
        MCmd::RunSchedule(s) => MCmd::RunSchedule(MSched::Seq(vec![rewrap(s)])),
        MCmd::Fail(c) => MCmd::Fail(Box::new(expected_after(c))),
        o => o.clone(),
    }
}

pub struct Violation {
    pub key: String,
    pub what: String,
    pub input: String, // JSON
}

/// the property predicate for one tree the parser returned; `chk` = parser configuration used
pub fn roundtrip(ast0: &Command, chk: bool, origin: &str) -> (String, PR<Vec<MCmd>>, Vec<Violation>) {
    let m0 = cmd_of(ast0);
    let txt = ast0.to_string();
    let back = map_pr(&parse_prog(&txt, chk), |v| v.iter().map(cmd_of).collect::<Vec<_>>());
    let mut viol = vec![];
    if back != PR::Ok(vec![m0.clone()]) {
        let mut ft = Features::default();
        features(&m0, &mut ft);
        let input = format!("{{\"kind\":\"src\",\"chk\":{},\"text\":{}}}", chk, json_str(origin));
        let mut keys: Vec<&str> = vec![];
        if back == PR::Ok(vec![expected_after(&m0)]) {
            if ft.schedule {
                keys.push("C15-schedule-reparse-adds-seq");
            }
        }
        if keys.is_empty() {
            if ft.variant_unextractable {
                keys.push("C15-variant-unextractable-not-printed");
            } else if ft.rewrite_name {
                keys.push("C15-rewrite-name-not-printed");
            } else if ft.panic_special {
                keys.push("F5-panic-msg-unescaped");
            } else if ft.rule_name_special {
                keys.push("C15-rule-name-unescaped");
            } else if ft.print_stats_file {
                keys.push("C15-print-stats-file-unquoted");
            } else if ft.file_bad_debug {
                keys.push("C15-file-debug-escape");
            } else if ft.colon_symbol {
                keys.push("C15-colon-symbol-read-as-option");
            } else {
                keys.push("C15-roundtrip-other");
            }
        }
        for k in keys {
            viol.push(Violation {
                key: k.to_string(),
                what: format!("tree {:?} prints to {:?} which parses back to {:?}", m0, txt, back),
                input: input.clone(),
            });
        }
    }
    (txt, back, viol)
}

fn has_reserved_var(c: &Command) -> bool {
    let mut ft = Features::default();
    features(&cmd_of(c), &mut ft);
    ft.reserved_var
}

// ------------------------------------------------------------------ the run
pub struct Ctx {
    pub w: CaseWriter,
    pub violations: Vec<Violation>,
    pub distinct: HashSet<String>,
    pub nontrivial: usize,
    pub kind_hist: BTreeMap<String, usize>,
    pub result_hist: BTreeMap<String, usize>,
    pub cmd_hist: BTreeMap<String, usize>,
    pub opt_hist: BTreeMap<String, usize>,
    pub samples: Vec<String>,
    pub emit_coq: bool,
}
const OPTS: &[&str] = &[
    ":cost", ":unextractable", ":merge", ":no-merge", ":subsume", ":when", ":ruleset", ":name", ":naive", ":unsafe-seminaive", ":no-decomp", ":until",
    ":mode", ":file", ":internal-hidden", ":internal-let", ":internal-term-constructor", ":internal-uf", ":internal-proof-func",
    ":internal-proof-names", ":internal-container-rebuild", ":internal-include-subsumed",
];
impl Ctx {
    fn bump(h: &mut BTreeMap<String, usize>, k: &str) {
        *h.entry(k.to_string()).or_insert(0) += 1;
    }
    fn note_text(&mut self, txt: &str) {
        for o in OPTS {
            if txt.contains(&format!(" {}", o)) {
                Self::bump(&mut self.opt_hist, o);
            }
        }
        let nontrivial = txt.contains(" :") || txt.contains('\\') || txt.chars().any(|c| !c.is_ascii()) || txt.contains('.');
        if self.distinct.insert(txt.to_string()) && nontrivial {
            self.nontrivial += 1;
        }
    }
    fn push(&mut self, case: String) {
        if self.emit_coq {
            self.w.push(case);
        }
    }
    /// program source text -> parser -> every returned command is checked and recorded
    pub fn src_case(&mut self, src: &str, chk: bool, record_model: bool) {
        Self::bump(&mut self.kind_hist, "program-text");
        let r0 = parse_prog(src, chk);
        if let PR::Panicked(m) = &r0 {
            self.violations.push(Violation {
                key: "C15-parser-panic".into(),
                what: format!("parser panicked: {m}"),
                input: format!("{{\"kind\":\"src\",\"chk\":{},\"text\":{}}}", chk, json_str(src)),
            });
            return;
        }
        Self::bump(&mut self.result_hist, match &r0 { PR::Ok(_) => "accepted", PR::Err(k) => k, PR::Panicked(_) => "panic" });
        if record_model {
            let mut o = Orc::default();
            o.add_text(src);
            let back = map_pr(&r0, |v| v.iter().map(cmd_of).collect::<Vec<_>>());
            self.push(format!("KProg {} {} {} {}", o.coq(), cbool(chk), cstr(src), back.coq(|v| clist(v, |c| c.coq()))));
        }
        if let PR::Ok(cmds) = r0 {
            for c in &cmds {
                self.cmd_case(c, chk, src, record_model);
            }
        }
    }
    pub fn cmd_case(&mut self, ast0: &Command, chk: bool, origin: &str, record_model: bool) {
        // the property's "after sanitisation" clause: trees with the reserved prefix are sanitised
        // first when the parser rejects reserved symbols
        let sanitized;
        let ast = if chk && has_reserved_var(ast0) {
            sanitized = sanitize_internal_names(std::slice::from_ref(ast0));
            if sanitized.len() != 1 || has_reserved_var(&sanitized[0]) {
                self.violations.push(Violation {
                    key: "C15-sanitize-leaves-prefix".into(),
                    what: format!("sanitize_internal_names left the reserved prefix in {}", sanitized.iter().map(|c| c.to_string()).collect::<Vec<_>>().join(" ")),
                    input: format!("{{\"kind\":\"src\",\"chk\":{},\"text\":{}}}", chk, json_str(origin)),
                });
                return;
            }
            Self::bump(&mut self.kind_hist, "sanitised");
            &sanitized[0]
        } else {
            ast0
        };
        let (txt, back, viol) = roundtrip(ast, chk, origin);
        let m = cmd_of(ast);
        let name = format!("{:?}", m);
        let name = name.split(|c: char| !c.is_alphanumeric()).next().unwrap_or("").to_string();
        Self::bump(&mut self.cmd_hist, &name);
        Self::bump(&mut self.kind_hist, "command");
        self.note_text(&txt);
        if viol.is_empty() {
            Self::bump(&mut self.result_hist, "roundtrip-same");
        }
        for v in viol {
            Self::bump(&mut self.result_hist, &v.key);
            self.violations.push(v);
        }
        if self.samples.len() < 6 && txt.contains(" :") {
            self.samples.push(format!("{{\"printed\":{},\"reparsed_equal\":{}}}", json_str(&txt), back == PR::Ok(vec![m.clone()])));
        }
        if record_model {
            let mut o = Orc::default();
            o.add_text(&txt);
            self.push(format!("KCmd {} {} {} {} {}", o.coq(), cbool(chk), m.coq(), cstr(&txt), back.coq(|v| clist(v, |c| c.coq()))));
            // actions / facts / schedules / expressions inside, as their own cases
            self.inner_cases(ast, chk);
        }
    }
    fn inner_cases(&mut self, c: &Command, chk: bool) {
        match c {
            Command::RunSchedule(s) => {
                let txt = s.to_string();
                let back = map_pr(&guarded(|p| p.get_schedule_from_string(None, &txt), chk), sched_of);
                let mut o = Orc::default();
                o.add_text(&txt);
                Self::bump(&mut self.kind_hist, "schedule");
                self.push(format!("KSched {} {} {} {} {}", o.coq(), cbool(chk), sched_of(s).coq(), cstr(&txt), back.coq(|x| x.coq())));
            }
            Command::Rule { rule } => {
                for f in rule.body.iter().take(2) {
                    self.fact_case(f, chk);
                }
                for a in rule.head.0.iter().take(2) {
                    let txt = a.to_string();
                    let wrapped = format!("(rule () ({}))", txt);
                    let back = match parse_prog(&wrapped, chk) {
                        PR::Ok(v) => match v.as_slice() {
                            [Command::Rule { rule }] if rule.head.0.len() == 1 => PR::Ok(action_of(&rule.head.0[0])),
                            _ => continue,
                        },
                        PR::Err(k) => PR::Err(k),
                        PR::Panicked(s) => PR::Panicked(s),
                    };
                    let mut o = Orc::default();
                    o.add_text(&txt);
                    Self::bump(&mut self.kind_hist, "action");
                    self.push(format!("KAction {} {} {} {} {}", o.coq(), cbool(chk), action_of(a).coq(), cstr(&txt), back.coq(|x| x.coq())));
                }
            }
            Command::Check(_, fs) => {
                for f in fs.iter().take(2) {
                    self.fact_case(f, chk);
                }
            }
            Command::Extract(_, e, _) | Command::Action(Action::Expr(_, e)) | Command::Action(Action::Let(_, _, e)) => {
                let txt = e.to_string();
                let back = map_pr(&guarded(|p| p.get_expr_from_string(None, &txt), chk), expr_of);
                let mut o = Orc::default();
                o.add_text(&txt);
                Self::bump(&mut self.kind_hist, "expr");
                self.push(format!("KExpr {} {} {} {} {}", o.coq(), cbool(chk), expr_of(e).coq(), cstr(&txt), back.coq(|x| x.coq())));
            }
            _ => {}
        }
    }
    fn fact_case(&mut self, f: &Fact, chk: bool) {
        let txt = f.to_string();
        let back = map_pr(&guarded(|p| p.get_fact_from_string(None, &txt), chk), fact_of);
        let mut o = Orc::default();
        o.add_text(&txt);
        Self::bump(&mut self.kind_hist, "fact");
        self.push(format!("KFact {} {} {} {} {}", o.coq(), cbool(chk), fact_of(f).coq(), cstr(&txt), back.coq(|x| x.coq())));
    }

    /// raw reader: text -> all_sexps, observed through a command macro
    pub fn read_case(&mut self, input: &str) {
        let text = format!("(probe {}\n)", input);
        let captured: Arc<Mutex<Vec<Vec<MSexp>>>> = Arc::new(Mutex::new(vec![]));
        let cap = captured.clone();
        let r = guarded(
            |p| {
                p.add_command_macro(Arc::new(SimpleMacro::new("probe", move |tail: &[Sexp], _span, _p: &mut Parser| {
                    cap.lock().unwrap().push(tail.iter().map(sexp_of).collect());
                    Ok(vec![])
                })));
                p.get_program_from_string(None, &text)
            },
            true,
        );
        Self::bump(&mut self.kind_hist, "reader-text");
        let expect: PR<Vec<MSexp>> = match r {
            PR::Ok(cmds) if cmds.is_empty() => PR::Ok(
                captured
                    .lock()
                    .unwrap()
                    .iter()
                    .map(|t| {
                        let mut l = vec![MSexp::Atom("probe".into())];
                        l.extend(t.iter().cloned());
                        MSexp::List(l)
                    })
                    .collect(),
            ),
            PR::Err(k) if k != "EGrammar" => PR::Err(k),
            PR::Panicked(m) => {
                self.violations.push(Violation { key: "C15-parser-panic".into(), what: format!("reader panicked: {m}"), input: format!("{{\"kind\":\"src\",\"chk\":true,\"text\":{}}}", json_str(&text)) });
                return;
            }
            _ => {
                Self::bump(&mut self.result_hist, "reader-skipped");
                return;
            }
        };
        Self::bump(&mut self.result_hist, if expect.is_ok() { "reader-ok" } else { "reader-lex-error" });
        let mut o = Orc::default();
        o.add_text(&text);
        self.push(format!("KRead {} {} {}", o.coq(), cstr(&text), expect.coq(|v| clist(v, |s| s.coq()))));
    }

    /// one literal: Display, re-lexed by Rust (predicate) and by the model (case)
    pub fn lit_case(&mut self, l: &MLit) {
        let rl = match l {
            MLit::Int(i) => Literal::Int(*i),
            MLit::Float(f) => Literal::Float(ordered_float(f.to_f64())),
            MLit::Str(s) => Literal::String(s.clone()),
            MLit::Bool(b) => Literal::Bool(*b),
            MLit::Unit => Literal::Unit,
        };
        let txt = rl.to_string();
        Self::bump(&mut self.kind_hist, "literal");
        let back = map_pr(&guarded(|p| p.get_expr_from_string(None, &txt), true), expr_of);
        if back != PR::Ok(MExpr::Lit(l.clone())) {
            self.violations.push(Violation {
                key: "C15-literal".into(),
                what: format!("literal {:?} prints to {:?} which reads back as {:?}", l, txt, back),
                input: format!("{{\"kind\":\"src\",\"chk\":true,\"text\":{}}}", json_str(&format!("(f {})", txt))),
            });
        }
        self.note_text(&txt);
        let mut o = Orc::default();
        o.add_text(&txt);
        if let MLit::Float(f) = l {
            o.add_float(f.to_f64());
        }
        self.push(format!("KLit {} {} {}", o.coq(), l.coq(), cstr(&txt)));
    }
}
fn ordered_float(f: f64) -> egglog::sort::OrderedFloat<f64> {
    egglog::sort::OrderedFloat(f)
}

/// the hypotheses about f64::to_string / parse::<f64> that the float theorems assume
fn float_hypothesis(seed: u64, n: usize, viol: &mut Vec<Violation>) -> usize {
    let mut tested = 0;
    let mut check = |x: f64| {
        if !x.is_finite() {
            return;
        }
        tested += 1;
        let s = x.to_string();
        let p = if s.parse::<i64>().is_ok() { format!("{s}.0") } else { s.clone() };
        let ok = !s.is_empty()
            && s.chars().all(|c| c.is_ascii_digit() || c == '-' || c == '.')
            && p.parse::<f64>().map(|y| y.to_bits() == x.to_bits()).unwrap_or(false)
            && Literal::Float(ordered_float(x)).to_string() == p;
        if !ok && viol.len() < 50 {
            viol.push(Violation {
                key: "C15-float-oracle-hypothesis".into(),
                what: format!("f64 bits {:#x} formats as {:?}; printed {:?} does not parse back to the same bits", x.to_bits(), s, p),
                input: format!("{{\"kind\":\"float\",\"bits\":{}}}", x.to_bits()),
            });
        }
    };
    for x in gen::f64_stress() {
        check(x);
    }
    for e in 0..2047u64 {
        check(f64::from_bits(e << 52));
        check(f64::from_bits((e << 52) | 1));
        check(f64::from_bits((e << 52) | ((1 << 52) - 1)));
    }
    for i in 0..n {
        let mut r = Rng::for_case(seed ^ 0xF10A7, i as u64);
        check(f64::from_bits(r.next()));
        check((r.next() as i64 >> r.below(64)) as f64);
    }
    tested
}

fn main() {
    let o = verif_harness::parse_opts();
    std::process::exit(run(&o));
}

pub fn run(o: &Opts) -> i32 {
    let header = "From Coq Require Import List NArith ZArith String.\nImport ListNotations.\nRequire Import Verif.Base.Cases Verif.Syntax.Sexp Verif.Syntax.Ast.\nOpen Scope N_scope.\n";
    let mut cx = Ctx {
        w: CaseWriter::new(&o.out, "cases_syntax", header, "check_case", 250),
        violations: vec![],
        distinct: HashSet::new(),
        nontrivial: 0,
        kind_hist: BTreeMap::new(),
        result_hist: BTreeMap::new(),
        cmd_hist: BTreeMap::new(),
        opt_hist: BTreeMap::new(),
        samples: vec![],
        emit_coq: true,
    };
    let mut extra = String::new();
    let replay_one = |cx: &mut Ctx, v: &serde_json::Value| match v["kind"].as_str() {
        Some("src") => cx.src_case(v["text"].as_str().unwrap_or(""), v["chk"].as_bool().unwrap_or(true), true),
        Some("float") => {
            let x = f64::from_bits(v["bits"].as_u64().unwrap_or(0));
            cx.lit_case(&MLit::Float(MFl::of(x)));
        }
        _ => {}
    };
    if let Some(path) = &o.replay {
        let txt = std::fs::read_to_string(path).expect("replay file");
        let v: serde_json::Value = serde_json::from_str(&txt).expect("json");
        // accept either the bare input or a replay file written by bin/check
        let inp = if v.get("kind").and_then(|k| k.as_str()).map(|k| k == "src" || k == "float").unwrap_or(false) { v.clone() } else { v["violation"]["input"].clone() };
        replay_one(&mut cx, &inp);
    } else {
        // 0. corpus
        let mut corpus: Vec<_> = std::fs::read_dir("/verif/corpus/C15").map(|d| d.flatten().map(|e| e.path()).collect()).unwrap_or_default();
        corpus.sort();
        for p in corpus {
            if let Ok(t) = std::fs::read_to_string(&p) {
                if let Ok(v) = serde_json::from_str::<serde_json::Value>(&t) {
                    replay_one(&mut cx, &v);
                }
            }
        }
        // 1. whitespace table
        let bound = 0x3100u32;
        let ws: Vec<String> = (0..bound).filter_map(char::from_u32).filter(|c| c.is_whitespace()).map(|c| (c as u32).to_string()).collect();
        assert!((bound..0x110000).filter_map(char::from_u32).all(|c| !c.is_whitespace()));
        cx.push(format!("KWs {} [{}]", bound, ws.join(";")));
        // 2. literal stress
        for i in gen::I64S {
            cx.lit_case(&MLit::Int(*i));
        }
        for x in gen::f64_stress() {
            cx.lit_case(&MLit::Float(MFl::of(x)));
        }
        for s in gen::STRS {
            cx.lit_case(&MLit::Str(s.to_string()));
        }
        cx.lit_case(&MLit::Bool(true));
        cx.lit_case(&MLit::Bool(false));
        cx.lit_case(&MLit::Unit);
        let nlit = if o.thorough { 4000 } else { 300 };
        for i in 0..nlit {
            let mut r = Rng::for_case(o.seed ^ 0x11, i as u64);
            let l = gen::lit(&mut r);
            cx.lit_case(&l);
        }
        // 3. generated programs over the whole grammar
        let ncmd = if o.thorough { 60000 } else { 1500 };
        for i in 0..ncmd {
            let mut r = Rng::for_case(o.seed, i as u64);
            let m = gen::command(&mut r, 2);
            let fancy = r.chance(1, 2);
            let chk = r.chance(2, 3);
            let src = Src { r: &mut r, fancy }.command(&m);
            // in the thorough tier only a fraction goes through the kernel
            let record = !o.thorough || i % 8 == 0;
            cx.src_case(&src, chk, record);
        }
        // 4. raw reader texts: token soup and damaged programs
        let nread = if o.thorough { 6000 } else { 600 };
        let toks = ["(", ")", "(", ")", " ", "\n", "a", "foo", "\"s\"", "\"a\\\"b\"", "\"a\\qb\"", "\"open", ";c\n", "; (\n", "12", "-3", "+4", "1.5", "true", "false", "NaN", "inf", "-inf", "1e999", "()", "\u{a0}", "\\", "\"\\n\\t\\\\\"", "x\"y", "\"\"\"\"", "\t", "\r", "9223372036854775808", "-9223372036854775808", "1e5", ".5", "5.", "--1", "\"multi\nline\"", "é", "\u{2028}"];
        for i in 0..nread {
            let mut r = Rng::for_case(o.seed ^ 0x22, i as u64);
            let mut t = String::new();
            if r.chance(1, 3) {
                let m = gen::command(&mut r, 1);
                t = Src { r: &mut r, fancy: true }.command(&m);
                // damage it
                let chars: Vec<char> = t.chars().collect();
                if !chars.is_empty() && r.chance(2, 3) {
                    let k = r.below(chars.len());
                    t = chars.iter().enumerate().filter(|(j, _)| *j != k).map(|(_, c)| *c).collect();
                }
            } else {
                for _ in 0..r.range(1, 14) {
                    let tk: &str = *r.pick(&toks[..]); t.push_str(tk);
                    if r.chance(1, 2) {
                        t.push(' ');
                    }
                }
            }
            cx.read_case(&t);
        }
        // 5. files of the repository: every command, and the desugared program re-run
        extra = files::run(&mut cx, o);
    }
    // 6. hypotheses of the float theorems, on the real functions
    let ntest = float_hypothesis(o.seed, if o.thorough { 1_000_000 } else { 100_000 }, &mut cx.violations);
    for t in DIGITLESS_FLOATS.lock().unwrap().iter().take(5) {
        cx.violations.push(Violation {
            key: "C15-float-oracle-hypothesis".into(),
            what: format!("token {:?} has no digit but parses as a finite f64", t),
            input: format!("{{\"kind\":\"src\",\"chk\":true,\"text\":{}}}", json_str(&format!("(f {})", t))),
        });
    }
    cx.w.flush();
    // one entry per key (first input), plus a count
    let mut by_key: BTreeMap<String, (usize, &Violation)> = BTreeMap::new();
    for v in &cx.violations {
        by_key.entry(v.key.clone()).and_modify(|e| e.0 += 1).or_insert((1, v));
    }
    let viols: Vec<String> = by_key
        .iter()
        .map(|(k, (n, v))| format!("{{\"key\":{},\"count\":{},\"what\":{},\"input\":{}}}", json_str(k), n, json_str(&v.what.chars().take(1500).collect::<String>()), v.input))
        .collect();
    let h = |m: &BTreeMap<String, usize>| serde_json::to_string(m).unwrap();
    let report = format!(
        "{{\"sub\":\"syntax\",\"evaluations\":{},\"cases\":{},\"shards\":{},\"distinct_nontrivial\":{},\"rule\":{},\"kind_hist\":{},\"result_hist\":{},\"command_hist\":{},\"option_hist\":{},\"samples\":[{}],\"violations\":[{}],\"extra_coverage\":{{\"float_oracle_hypothesis_values_tested\":{},\"tokens_checked_for_digit_hypothesis\":{}{}}}}}\n",
        cx.kind_hist.values().sum::<usize>().max(cx.w.total).max(cx.nontrivial),
        cx.w.total,
        cx.w.shards,
        cx.nontrivial,
        json_str("random trees over the whole command grammar written as source text (canonical and with shuffled options, sugar, comments, unicode blanks) -> Rust parser -> Display -> Rust parser, compared structurally; literal stress; damaged texts for the reader; every command of tests/*.egg; a case is distinct by its printed text and non-trivial iff the text has an option keyword, a backslash, a non-ASCII character or a '.'"),
        h(&cx.kind_hist),
        h(&cx.result_hist),
        h(&cx.cmd_hist),
        h(&cx.opt_hist),
        cx.samples.join(","),
        viols.join(","),
        ntest,
        TOKENS_PARSED_AS_F64.load(std::sync::atomic::Ordering::Relaxed),
        extra
    );
    std::fs::write(o.out.join("impl_report.json"), report).unwrap();
    0
}
