//! Expression-level facts: constants / operators at named sites, emitted as Gallina definitions
//! that the hand-written models USE (so a change at the site changes the model the theorems are
//! about). Each fact that can no longer be located is reported as a failed item and its
//! definition is omitted, which breaks the dependent proofs (never a stale value).
use std::path::Path;
use syn::visit::Visit;

fn find_fn<'a>(file: &'a syn::File, name: &str) -> Option<syn::Block> {
    struct F<'n> {
        name: &'n str,
        found: Option<syn::Block>,
    }
    impl<'ast, 'n> Visit<'ast> for F<'n> {
        fn visit_impl_item_fn(&mut self, f: &'ast syn::ImplItemFn) {
            if self.found.is_none() && f.sig.ident == self.name {
                self.found = Some(f.block.clone());
            }
            syn::visit::visit_impl_item_fn(self, f);
        }
        fn visit_item_fn(&mut self, f: &'ast syn::ItemFn) {
            if self.found.is_none() && f.sig.ident == self.name {
                self.found = Some((*f.block).clone());
            }
            syn::visit::visit_item_fn(self, f);
        }
    }
    let mut v = F { name, found: None };
    v.visit_file(file);
    v.found
}

/// A7: the timestamp constraints `Query::add_rules_from_cached` puts on the atoms of a rule body
/// for semi-naive evaluation.
fn semi_constraints(repo: &Path) -> Result<String, String> {
    let src = std::fs::read_to_string(repo.join("egglog-bridge/src/rule.rs")).map_err(|e| e.to_string())?;
    let file = syn::parse_file(&src).map_err(|e| e.to_string())?;
    let body = find_fn(&file, "add_rules_from_cached").ok_or("fn add_rules_from_cached not found")?;
    // collect, in source order, every `Constraint::<Variant> { .. }` struct expression, and the
    // range expression of every `for .. in self.atoms[<range>]`
    struct C {
        constraints: Vec<String>,
        ranges: Vec<String>,
    }
    impl<'ast> Visit<'ast> for C {
        fn visit_expr_struct(&mut self, e: &'ast syn::ExprStruct) {
            let segs: Vec<String> = e.path.segments.iter().map(|s| s.ident.to_string()).collect();
            if segs.len() == 2 && segs[0] == "Constraint" {
                self.constraints.push(segs[1].clone());
            }
            syn::visit::visit_expr_struct(self, e);
        }
        fn visit_expr_index(&mut self, e: &'ast syn::ExprIndex) {
            if let syn::Expr::Range(r) = &*e.index {
                use quote::ToTokens;
                self.ranges.push(r.to_token_stream().to_string().replace(' ', ""));
            }
            syn::visit::visit_expr_index(self, e);
        }
    }
    let mut c = C { constraints: vec![], ranges: vec![] };
    c.visit_block(&body);
    if c.constraints.len() != 3 {
        return Err(format!("expected 3 Constraint constructions in add_rules_from_cached, found {:?}", c.constraints));
    }
    let tr = |s: &str| -> String {
        match s {
            "GeConst" => "CGe",
            "GtConst" => "CGt",
            "LtConst" => "CLt",
            "LeConst" => "CLe",
            "EqConst" => "CEq",
            _ => "COther",
        }
        .to_string()
    };
    let prefix = c.ranges.iter().any(|r| r == "0..focus_atom");
    Ok(format!(
        "(* egglog-bridge/src/rule.rs add_rules_from_cached *)\nDefinition semi_sole_focus : tscmp := {}.\nDefinition semi_focus : tscmp := {}.\nDefinition semi_earlier : tscmp := {}.\nDefinition semi_earlier_is_prefix : bool := {}.\n",
        tr(&c.constraints[0]),
        tr(&c.constraints[1]),
        tr(&c.constraints[2]),
        prefix
    ))
}

/// C05: what each collision path of `core-relations/src/table/mod.rs` stores when the merge
/// function reports a change: for every `if <merge>(.., cur, new, &mut scratch) { .. }` the buffer
/// handed to the first `add_row` / `overwrite_row_shared` in the then-branch.
fn collision_sites(repo: &Path) -> Result<String, String> {
    use quote::ToTokens;
    let src = std::fs::read_to_string(repo.join("core-relations/src/table/mod.rs")).map_err(|e| e.to_string())?;
    let file = syn::parse_file(&src).map_err(|e| e.to_string())?;
    fn norm(e: &syn::Expr) -> String {
        let mut t = e.to_token_stream().to_string().replace(' ', "");
        for pre in ["&mut", "&"] {
            if let Some(r) = t.strip_prefix(pre) {
                t = r.to_string();
            }
        }
        t.strip_prefix("self.").map(|x| x.to_string()).unwrap_or(t)
    }
    fn is_merge_callee(e: &syn::Expr) -> bool {
        let t = e.to_token_stream().to_string().replace(' ', "");
        matches!(t.as_str(), "(self.merge)" | "(merge)" | "merge_fn" | "self.merge" | "merge")
    }
    struct FirstStore {
        found: Option<String>,
    }
    impl<'ast> Visit<'ast> for FirstStore {
        fn visit_expr_method_call(&mut self, m: &'ast syn::ExprMethodCall) {
            if self.found.is_none() && (m.method == "add_row" || m.method == "overwrite_row_shared") {
                if let Some(a) = m.args.last() {
                    self.found = Some(norm(a));
                }
            }
            syn::visit::visit_expr_method_call(self, m);
        }
    }
    struct V {
        cur_fn: String,
        sites: Vec<(String, String)>,
        merge_calls: usize,
        forwarders: usize,
    }
    impl V {
        fn scan_macro(&mut self, mac: &syn::Macro) {
            // macro_rules! name { () => {{ .. }} }: parse the innermost brace group as a block
            fn groups(ts: proc_macro2::TokenStream, out: &mut Vec<proc_macro2::Group>) {
                for tt in ts {
                    if let proc_macro2::TokenTree::Group(g) = tt {
                        out.push(g);
                    }
                }
            }
            let mut gs = Vec::new();
            groups(mac.tokens.clone(), &mut gs);
            for g in gs {
                if g.delimiter() != proc_macro2::Delimiter::Brace {
                    continue;
                }
                if let Ok(b) = syn::parse2::<syn::Block>(g.stream()) {
                    let saved = self.cur_fn.clone();
                    self.cur_fn = format!("{saved}/macro");
                    self.visit_block(&b);
                    self.cur_fn = saved;
                }
            }
        }
    }
    impl<'ast> Visit<'ast> for V {
        fn visit_impl_item_fn(&mut self, f: &'ast syn::ImplItemFn) {
            let saved = std::mem::replace(&mut self.cur_fn, f.sig.ident.to_string());
            syn::visit::visit_impl_item_fn(self, f);
            self.cur_fn = saved;
        }
        fn visit_item_mod(&mut self, m: &'ast syn::ItemMod) {
            if m.ident == "tests" {
                return;
            }
            syn::visit::visit_item_mod(self, m);
        }
        fn visit_item_macro(&mut self, m: &'ast syn::ItemMacro) {
            self.scan_macro(&m.mac);
        }
        fn visit_stmt_macro(&mut self, m: &'ast syn::StmtMacro) {
            self.scan_macro(&m.mac);
        }
        fn visit_expr_call(&mut self, c: &'ast syn::ExprCall) {
            if is_merge_callee(&c.func) && c.args.len() >= 3 {
                self.merge_calls += 1;
            }
            syn::visit::visit_expr_call(self, c);
        }
        fn visit_expr_closure(&mut self, cl: &'ast syn::ExprClosure) {
            // `|cur, new, out| (merge)(.., cur, new, out)`: a forwarder that keeps the argument order
            if let syn::Expr::Call(c) = &*cl.body {
                if is_merge_callee(&c.func) && c.args.len() >= 3 && cl.inputs.len() == 3 {
                    let n = c.args.len();
                    let params: Vec<String> = cl.inputs.iter().map(|p| p.to_token_stream().to_string().replace(' ', "")).collect();
                    let args: Vec<String> = (n - 3..n).map(|i| norm(&c.args[i])).collect();
                    if params == args {
                        self.forwarders += 1;
                    }
                }
            }
            syn::visit::visit_expr_closure(self, cl);
        }
        fn visit_expr_if(&mut self, e: &'ast syn::ExprIf) {
            if let syn::Expr::Call(c) = &*e.cond {
                if is_merge_callee(&c.func) && c.args.len() >= 3 {
                    let n = c.args.len();
                    let cur = norm(&c.args[n - 3]);
                    let new = norm(&c.args[n - 2]);
                    let scratch = norm(&c.args[n - 1]);
                    let mut fs = FirstStore { found: None };
                    fs.visit_block(&e.then_branch);
                    let kind = match fs.found {
                        Some(a) if a == scratch => "StoreMerged",
                        Some(a) if a == new => "StoreIncoming",
                        Some(a) if a == cur => "StoreCurrent",
                        _ => "StoreOther",
                    };
                    self.sites.push((self.cur_fn.clone(), kind.to_string()));
                }
            }
            syn::visit::visit_expr_if(self, e);
        }
    }
    let mut v = V { cur_fn: String::new(), sites: vec![], merge_calls: 0, forwarders: 0 };
    v.visit_file(&file);
    if v.sites.is_empty() {
        return Err("no merge collision site found in core-relations/src/table/mod.rs".into());
    }
    if v.merge_calls != v.sites.len() + v.forwarders {
        return Err(format!(
            "{} calls of the table merge function but only {} recognised as `if merge(..) {{ store }}` collision sites and {} as order-preserving forwarding closures",
            v.merge_calls,
            v.sites.len(),
            v.forwarders
        ));
    }
    let mut out = String::from(
        "(* core-relations/src/table/mod.rs: per collision path, the buffer stored when the merge reports a change *)\nInductive store_kind := StoreMerged | StoreIncoming | StoreCurrent | StoreOther.\nDefinition collision_sites : list (string * store_kind) := [",
    );
    out.push_str(&v.sites.iter().map(|(f, k)| format!("(\"{}\"%string, {})", f, k)).collect::<Vec<_>>().join("; "));
    out.push_str("].\n");
    Ok(out)
}

/// C07/C13: every table scan of the extractor (`src/extract.rs`: closures over
/// `egglog_bridge::ScanEntry` handed to `backend.for_each`) skips subsumed rows: the closure body is
/// a single `if !row.subsumed { .. }` without else. Also the frontend's rule-body lowering
/// (`src/lib.rs` fn query): the subsumption constraint put on every table atom.
fn subsume_guards(repo: &Path) -> Result<String, String> {
    use quote::ToTokens;
    let src = std::fs::read_to_string(repo.join("src/extract.rs")).map_err(|e| e.to_string())?;
    let file = syn::parse_file(&src).map_err(|e| e.to_string())?;
    struct V {
        cur_fn: String,
        scans: Vec<(String, String, bool)>,
        calls: Vec<(String, String)>,
    }
    impl<'ast> Visit<'ast> for V {
        fn visit_impl_item_fn(&mut self, f: &'ast syn::ImplItemFn) {
            let saved = std::mem::replace(&mut self.cur_fn, f.sig.ident.to_string());
            syn::visit::visit_impl_item_fn(self, f);
            self.cur_fn = saved;
        }
        fn visit_expr_method_call(&mut self, c: &'ast syn::ExprMethodCall) {
            if (c.method == "for_each" || c.method == "for_each_while")
                && c.receiver.to_token_stream().to_string().replace(' ', "").ends_with("backend")
            {
                let arg = match c.args.last() {
                    Some(syn::Expr::Path(p)) => p.to_token_stream().to_string(),
                    Some(syn::Expr::Closure(_)) => "<inline>".to_string(),
                    _ => "<other>".to_string(),
                };
                self.calls.push((self.cur_fn.clone(), arg));
            }
            syn::visit::visit_expr_method_call(self, c);
        }
        fn visit_local(&mut self, l: &'ast syn::Local) {
            if let (syn::Pat::Ident(pi), Some(init)) = (&l.pat, &l.init) {
                if let syn::Expr::Closure(cl) = &*init.expr {
                    let is_scan = cl.inputs.iter().any(|p| p.to_token_stream().to_string().contains("ScanEntry"));
                    if is_scan {
                        let pname = match cl.inputs.first() {
                            Some(syn::Pat::Type(pt)) => pt.pat.to_token_stream().to_string(),
                            Some(p) => p.to_token_stream().to_string(),
                            None => String::new(),
                        };
                        let want = format!("!{pname}.subsumed");
                        let guarded = match &*cl.body {
                            syn::Expr::Block(b) if b.block.stmts.len() == 1 => match &b.block.stmts[0] {
                                syn::Stmt::Expr(syn::Expr::If(i), _) => {
                                    i.else_branch.is_none() && i.cond.to_token_stream().to_string().replace(' ', "") == want
                                }
                                _ => false,
                            },
                            _ => false,
                        };
                        self.scans.push((self.cur_fn.clone(), pi.ident.to_string(), guarded));
                    }
                }
            }
            syn::visit::visit_local(self, l);
        }
    }
    let mut v = V { cur_fn: String::new(), scans: vec![], calls: vec![] };
    v.visit_file(&file);
    let mut out = String::from("(* src/extract.rs: scan closures over table rows (fn, closure, body is `if !row.subsumed { .. }`) *)\nDefinition extract_scans : list (string * string * bool) := [");
    out.push_str(&v.scans.iter().map(|(f, c, g)| format!("(\"{f}\"%string, \"{c}\"%string, {g})")).collect::<Vec<_>>().join("; "));
    out.push_str("].\n");
    out.push_str("(* src/extract.rs: every scan of a backend table (fn, closure handed to for_each / for_each_while) *)\nDefinition extract_for_each_calls : list (string * string) := [");
    out.push_str(&v.calls.iter().map(|(f, a)| format!("(\"{f}\"%string, \"{a}\"%string)")).collect::<Vec<_>>().join("; "));
    out.push_str("].\n");

    // frontend lowering of rule bodies
    let src2 = std::fs::read_to_string(repo.join("src/lib.rs")).map_err(|e| e.to_string())?;
    let file2 = syn::parse_file(&src2).map_err(|e| e.to_string())?;
    // the `fn query` that takes `include_subsumed`
    struct Q {
        found: Option<syn::Block>,
    }
    impl<'ast> Visit<'ast> for Q {
        fn visit_impl_item_fn(&mut self, f: &'ast syn::ImplItemFn) {
            if self.found.is_none() && f.sig.ident == "query" && f.sig.inputs.to_token_stream().to_string().contains("include_subsumed") {
                self.found = Some(f.block.clone());
            }
            syn::visit::visit_impl_item_fn(self, f);
        }
    }
    let mut q = Q { found: None };
    q.visit_file(&file2);
    let body = q.found.ok_or("fn query(.., include_subsumed) not found in src/lib.rs")?;
    struct M {
        arms: Vec<(String, String)>,
        query_table_args: Vec<String>,
    }
    impl<'ast> Visit<'ast> for M {
        fn visit_expr_match(&mut self, m: &'ast syn::ExprMatch) {
            if m.expr.to_token_stream().to_string() == "include_subsumed" {
                for a in &m.arms {
                    self.arms.push((a.pat.to_token_stream().to_string(), a.body.to_token_stream().to_string().replace(' ', "")));
                }
            }
            syn::visit::visit_expr_match(self, m);
        }
        fn visit_expr_method_call(&mut self, c: &'ast syn::ExprMethodCall) {
            if c.method == "query_table" {
                if let Some(a) = c.args.last() {
                    self.query_table_args.push(a.to_token_stream().to_string());
                }
            }
            syn::visit::visit_expr_method_call(self, c);
        }
    }
    let mut m = M { arms: vec![], query_table_args: vec![] };
    m.visit_block(&body);
    let arm = |k: &str| m.arms.iter().find(|(p, _)| p == k).map(|(_, b)| b.clone());
    let tr = |b: Option<String>| match b.as_deref() {
        Some("None") => "SubAny",
        Some("Some(false)") => "SubOnlyLive",
        Some("Some(true)") => "SubOnlySubsumed",
        _ => "SubUnknown",
    };
    if m.query_table_args.len() != 1 {
        return Err(format!("expected one query_table call in fn query, found {:?}", m.query_table_args));
    }
    out.push_str("(* src/lib.rs fn query: the subsumption constraint on every table atom of a rule body *)\nInductive sub_constraint := SubAny | SubOnlyLive | SubOnlySubsumed | SubUnknown.\n");
    out.push_str(&format!("Definition query_subsumed_default : sub_constraint := {}.\nDefinition query_subsumed_when_included : sub_constraint := {}.\n", tr(arm("false")), tr(arm("true"))));
    out.push_str(&format!("Definition query_table_passes_flag : bool := {}.\n", m.query_table_args[0] == "is_subsumed"));
    Ok(out)
}

/// C03: which timestamp `run_rules_impl` (egglog-bridge/src/lib.rs) hands to
/// `add_rules_from_cached` as the semi-naive frontier of a rule, and whether it advances the
/// rule's own `last_run_at` to `next_ts` in the same loop.
fn semi_frontier(repo: &Path) -> Result<String, String> {
    use quote::ToTokens;
    let src = std::fs::read_to_string(repo.join("egglog-bridge/src/lib.rs")).map_err(|e| e.to_string())?;
    let file = syn::parse_file(&src).map_err(|e| e.to_string())?;
    let body = find_fn(&file, "run_rules_impl").ok_or("fn run_rules_impl not found")?;
    // the `for rule in rules { .. }` loop that contains the add_rules_from_cached call
    struct L {
        out: Option<(String, bool, bool)>,
        calls: usize,
    }
    impl<'ast> Visit<'ast> for L {
        fn visit_expr_for_loop(&mut self, fl: &'ast syn::ExprForLoop) {
            let pat = fl.pat.to_token_stream().to_string();
            let over = fl.expr.to_token_stream().to_string().replace(' ', "");
            struct C {
                arg: Option<String>,
                n: usize,
                info_is_own: bool,
                advances: bool,
                pat: String,
            }
            impl<'ast> Visit<'ast> for C {
                fn visit_expr_method_call(&mut self, c: &'ast syn::ExprMethodCall) {
                    if c.method == "add_rules_from_cached" {
                        self.n += 1;
                        if c.args.len() == 3 {
                            self.arg = Some(c.args[1].to_token_stream().to_string().replace(' ', ""));
                        }
                    }
                    syn::visit::visit_expr_method_call(self, c);
                }
                fn visit_local(&mut self, l: &'ast syn::Local) {
                    if let (syn::Pat::Ident(pi), Some(init)) = (&l.pat, &l.init) {
                        if pi.ident == "info" {
                            let t = init.expr.to_token_stream().to_string().replace(' ', "");
                            self.info_is_own = t == format!("&mutrule_info[*{}]", self.pat) || t == format!("&rule_info[*{}]", self.pat);
                        }
                    }
                    syn::visit::visit_local(self, l);
                }
                fn visit_expr_assign(&mut self, a: &'ast syn::ExprAssign) {
                    let l = a.left.to_token_stream().to_string().replace(' ', "");
                    let r = a.right.to_token_stream().to_string().replace(' ', "");
                    if l == "info.last_run_at" && r == "next_ts" {
                        self.advances = true;
                    }
                    syn::visit::visit_expr_assign(self, a);
                }
            }
            let mut c = C { arg: None, n: 0, info_is_own: false, advances: false, pat: pat.clone() };
            c.visit_block(&fl.body);
            if c.n > 0 {
                self.calls += c.n;
                let own = over == "rules" && c.info_is_own && c.arg.as_deref() == Some("info.last_run_at");
                self.out = Some((c.arg.unwrap_or_default(), own, c.advances && c.info_is_own));
            }
            syn::visit::visit_expr_for_loop(self, fl);
        }
    }
    let mut l = L { out: None, calls: 0 };
    l.visit_block(&body);
    if l.calls != 1 {
        return Err(format!("expected exactly one add_rules_from_cached call inside a for loop of run_rules_impl, found {}", l.calls));
    }
    let (arg, own, adv) = l.out.unwrap();
    Ok(format!(
        "(* egglog-bridge/src/lib.rs run_rules_impl: frontier argument `{}` *)\nInductive frontier_src := FOwnLastRun | FNotOwn.\nDefinition semi_frontier_src : frontier_src := {}.\nDefinition semi_frontier_advances_own : bool := {}.\n",
        arg.replace("*)", "* )"),
        if own { "FOwnLastRun" } else { "FNotOwn" },
        adv
    ))
}

/// C06: the shard of a staged row is a function of its KEY columns only
/// (`hash_code` in core-relations/src/table/mod.rs hashes `row[0..n_keys]` and nothing else, and
/// the shard id is derived from that hash alone).
fn shard_hash(repo: &Path) -> Result<String, String> {
    use quote::ToTokens;
    let src = std::fs::read_to_string(repo.join("core-relations/src/table/mod.rs")).map_err(|e| e.to_string())?;
    let file = syn::parse_file(&src).map_err(|e| e.to_string())?;
    let body = find_fn(&file, "hash_code").ok_or("fn hash_code not found")?;
    struct V {
        loops: Vec<String>,
        writes: Vec<String>,
        shard_args: Vec<String>,
    }
    impl<'ast> Visit<'ast> for V {
        fn visit_expr_for_loop(&mut self, fl: &'ast syn::ExprForLoop) {
            self.loops.push(fl.expr.to_token_stream().to_string().replace(' ', ""));
            syn::visit::visit_expr_for_loop(self, fl);
        }
        fn visit_expr_method_call(&mut self, c: &'ast syn::ExprMethodCall) {
            let m = c.method.to_string();
            if m.starts_with("write") {
                self.writes.push(c.args.to_token_stream().to_string().replace(' ', ""));
            }
            if m == "shard_id" {
                self.shard_args.push(c.args.to_token_stream().to_string().replace(' ', ""));
            }
            syn::visit::visit_expr_method_call(self, c);
        }
    }
    let mut v = V { loops: vec![], writes: vec![], shard_args: vec![] };
    v.visit_block(&body);
    let by_key = v.loops == vec!["&row[0..n_keys]".to_string()]
        && v.writes == vec!["val.index()".to_string()]
        && v.shard_args == vec!["full_code".to_string()];
    Ok(format!(
        "(* core-relations/src/table/mod.rs hash_code: loops {:?}, hasher writes {:?}, shard_id args {:?} *)\nInductive shard_input := ShardByKey | ShardOther.\nDefinition shard_hash_input : shard_input := {}.\n",
        v.loops,
        v.writes,
        v.shard_args,
        if by_key { "ShardByKey" } else { "ShardOther" }
    )
    .replace("*)\nInductive", "*)\nInductive"))
}

/// C20: inventory of hash-container aliases (with their hashers) and of files that use the
/// randomly seeded `std::collections::Hash{Map,Set}` / `RandomState` in non-test code.
fn hash_inventory(repo: &Path) -> Result<String, String> {
    let dirs = ["src", "egglog-bridge/src", "core-relations/src", "union-find/src", "concurrency/src",
                "numeric-id/src", "egglog-ast/src", "egglog-reports/src"];
    let mut files: Vec<std::path::PathBuf> = Vec::new();
    fn walk(d: &Path, acc: &mut Vec<std::path::PathBuf>) {
        if let Ok(rd) = std::fs::read_dir(d) {
            for e in rd.flatten() {
                let p = e.path();
                if p.is_dir() {
                    walk(&p, acc);
                } else if p.extension().map(|x| x == "rs").unwrap_or(false) {
                    acc.push(p);
                }
            }
        }
    }
    for d in dirs {
        walk(&repo.join(d), &mut files);
    }
    files.sort();
    if files.is_empty() {
        return Err("no source files found".into());
    }
    let mut aliases: Vec<(String, String, String)> = Vec::new();
    let mut std_users: Vec<String> = Vec::new();
    let mut default_sites: Vec<(String, usize)> = Vec::new();
    for f in &files {
        let rel = f.strip_prefix(repo).unwrap().to_string_lossy().to_string();
        let fname = f.file_name().unwrap().to_string_lossy().to_string();
        if fname == "tests.rs" || rel.contains("/tests/") || rel.contains("bench") {
            continue;
        }
        let src = std::fs::read_to_string(f).map_err(|e| e.to_string())?;
        let Ok(file) = syn::parse_file(&src) else { continue };
        struct V {
            aliases: Vec<(String, String)>,
            std_hash: bool,
            in_test: usize,
            in_alias: usize,
            default_sites: usize,
        }
        impl<'ast> Visit<'ast> for V {
            fn visit_item_mod(&mut self, m: &'ast syn::ItemMod) {
                let is_test = m.attrs.iter().any(|a| {
                    use quote::ToTokens;
                    a.to_token_stream().to_string().replace(' ', "").contains("cfg(test)")
                });
                if is_test {
                    self.in_test += 1;
                }
                syn::visit::visit_item_mod(self, m);
                if is_test {
                    self.in_test -= 1;
                }
            }
            fn visit_item_type(&mut self, t: &'ast syn::ItemType) {
                use quote::ToTokens;
                let rhs = t.ty.to_token_stream().to_string().replace(' ', "");
                if ["HashMap<", "HashSet<", "IndexMap<", "IndexSet<", "DashMap<"].iter().any(|k| rhs.contains(k)) {
                    self.aliases.push((t.ident.to_string(), rhs));
                }
                self.in_alias += 1;
                syn::visit::visit_item_type(self, t);
                self.in_alias -= 1;
            }
            fn visit_item_use(&mut self, u: &'ast syn::ItemUse) {
                use quote::ToTokens;
                let s = u.to_token_stream().to_string().replace(' ', "");
                if self.in_test == 0 && s.contains("std::collections") && (s.contains("HashMap") || s.contains("HashSet")) {
                    self.std_hash = true;
                }
                if self.in_test == 0 && (s.contains("RandomState") || s.contains("ahash")) {
                    self.std_hash = true;
                }
                // importing a library hash container directly brings its DEFAULT (seeded) hasher
                if self.in_test == 0 {
                    for lib in ["hashbrown::", "indexmap::", "dashmap::"] {
                        if s.contains(lib) {
                            for name in ["HashMap", "HashSet", "IndexMap", "IndexSet", "DashMap"] {
                                if s.contains(name) {
                                    self.default_sites += 1;
                                }
                            }
                        }
                    }
                }
            }
            fn visit_path(&mut self, p: &'ast syn::Path) {
                use quote::ToTokens;
                let s = p.to_token_stream().to_string().replace(' ', "");
                if self.in_test == 0
                    && (s.starts_with("std::collections::HashMap") || s.starts_with("std::collections::HashSet") || s.contains("RandomState"))
                {
                    self.std_hash = true;
                }
                // a qualified use of a library hash container outside the alias definitions:
                // counts as a default-hasher site unless it names the fixed hasher itself
                if self.in_test == 0 && self.in_alias == 0 {
                    let qualified = ["hashbrown::HashMap", "hashbrown::HashSet", "indexmap::IndexMap", "indexmap::IndexSet", "dashmap::DashMap"]
                        .iter()
                        .any(|q| s.starts_with(q));
                    if qualified && !s.contains("FxHasher") && !s.contains("BuildHasher") {
                        self.default_sites += 1;
                    }
                }
                syn::visit::visit_path(self, p);
            }
        }
        let mut v = V { aliases: vec![], std_hash: false, in_test: 0, in_alias: 0, default_sites: 0 };
        v.visit_file(&file);
        for (n, rhs) in v.aliases {
            aliases.push((rel.clone(), n, rhs));
        }
        if v.default_sites > 0 {
            default_sites.push((rel.clone(), v.default_sites));
        }
        if v.std_hash {
            std_users.push(rel);
        }
    }
    let mut out = String::new();
    out.push_str("Inductive hasher := HFx | HOtherHasher.\n");
    out.push_str("(* (file, alias, hasher) for every type alias of a hash container in non-test code *)\nDefinition hash_aliases : list (string * string * hasher) := [\n");
    for (i, (f, n, rhs)) in aliases.iter().enumerate() {
        // an alias built directly on a library container must name the fixed hasher; an alias
        // built on the crate-local alias inherits it
        let qualified = ["hashbrown::", "indexmap::", "dashmap::", "std::collections::"].iter().any(|q| rhs.contains(q));
        let fx = if qualified { rhs.contains("FxHasher") || rhs.ends_with(",BuildHasher>") } else { true };
        out.push_str(&format!(
            "  (\"{}\"%string, \"{}\"%string, {}){}\n",
            f, n, if fx { "HFx" } else { "HOtherHasher" }, if i + 1 < aliases.len() { ";" } else { "" }
        ));
    }
    out.push_str("].\n");
    out.push_str("(* non-test files that name std::collections::Hash{Map,Set} / RandomState / ahash *)\nDefinition std_hash_users : list string := [");
    out.push_str(&std_users.iter().map(|s| format!("\"{}\"%string", s)).collect::<Vec<_>>().join("; "));
    out.push_str("].\n");
    out.push_str("(* non-test files that use a library hash container with its DEFAULT (randomly seeded) hasher: imports + qualified uses outside the alias definitions, with their number *)\nDefinition default_hasher_sites : list (string * nat) := [");
    out.push_str(&default_sites.iter().map(|(f, n)| format!("(\"{}\"%string, {})", f, n)).collect::<Vec<_>>().join("; "));
    out.push_str("].\n");
    Ok(out)
}

pub fn generate(repo: &Path) -> (String, Vec<String>) {
    let mut out = String::new();
    out.push_str("(* GENERATED by /verif/translator: expression-level source facts -- do not edit *)\n");
    out.push_str("From Coq Require Import List Arith PeanoNat ZArith String.\nImport ListNotations.\n\n");
    out.push_str("Inductive tscmp := CGe | CGt | CLt | CLe | CEq | COther.\n\n");
    let mut rep = Vec::new();
    match semi_constraints(repo) {
        Ok(t) => {
            out.push_str(&t);
            rep.push("{\"item\":\"Facts.semi_constraints\",\"file\":\"egglog-bridge/src/rule.rs\",\"ok\":true}".to_string());
        }
        Err(e) => {
            out.push_str(&format!("(* semi_constraints FAILED: {} *)\n", e.replace("*)", "* )")));
            rep.push(format!(
                "{{\"item\":\"Facts.semi_constraints\",\"file\":\"egglog-bridge/src/rule.rs\",\"ok\":false,\"error\":{:?}}}",
                e
            ));
        }
    }
    match hash_inventory(repo) {
        Ok(t) => {
            out.push_str("\n");
            out.push_str(&t);
            rep.push("{\"item\":\"Facts.hash_inventory\",\"file\":\"workspace sources\",\"ok\":true}".to_string());
        }
        Err(e) => {
            out.push_str(&format!("(* hash_inventory FAILED: {} *)\n", e.replace("*)", "* )")));
            rep.push(format!("{{\"item\":\"Facts.hash_inventory\",\"file\":\"workspace sources\",\"ok\":false,\"error\":{:?}}}", e));
        }
    }
    match collision_sites(repo) {
        Ok(t) => {
            out.push_str("\n");
            out.push_str(&t);
            rep.push("{\"item\":\"Facts.collision_sites\",\"file\":\"core-relations/src/table/mod.rs\",\"ok\":true}".to_string());
        }
        Err(e) => {
            out.push_str(&format!("(* collision_sites FAILED: {} *)\n", e.replace("*)", "* )")));
            rep.push(format!("{{\"item\":\"Facts.collision_sites\",\"file\":\"core-relations/src/table/mod.rs\",\"ok\":false,\"error\":{:?}}}", e));
        }
    }
    match shard_hash(repo) {
        Ok(t) => {
            out.push_str("\n");
            out.push_str(&t);
            rep.push("{\"item\":\"Facts.shard_hash\",\"file\":\"core-relations/src/table/mod.rs\",\"ok\":true}".to_string());
        }
        Err(e) => {
            out.push_str(&format!("(* shard_hash FAILED: {} *)\n", e.replace("*)", "* )")));
            rep.push(format!("{{\"item\":\"Facts.shard_hash\",\"file\":\"core-relations/src/table/mod.rs\",\"ok\":false,\"error\":{:?}}}", e));
        }
    }
    match semi_frontier(repo) {
        Ok(t) => {
            out.push_str("\n");
            out.push_str(&t);
            rep.push("{\"item\":\"Facts.semi_frontier\",\"file\":\"egglog-bridge/src/lib.rs\",\"ok\":true}".to_string());
        }
        Err(e) => {
            out.push_str(&format!("(* semi_frontier FAILED: {} *)\n", e.replace("*)", "* )")));
            rep.push(format!("{{\"item\":\"Facts.semi_frontier\",\"file\":\"egglog-bridge/src/lib.rs\",\"ok\":false,\"error\":{:?}}}", e));
        }
    }
    match subsume_guards(repo) {
        Ok(t) => {
            out.push_str("\n");
            out.push_str(&t);
            rep.push("{\"item\":\"Facts.subsume_guards\",\"file\":\"src/extract.rs + src/lib.rs\",\"ok\":true}".to_string());
        }
        Err(e) => {
            out.push_str(&format!("(* subsume_guards FAILED: {} *)\n", e.replace("*)", "* )")));
            rep.push(format!("{{\"item\":\"Facts.subsume_guards\",\"file\":\"src/extract.rs + src/lib.rs\",\"ok\":false,\"error\":{:?}}}", e));
        }
    }
    (out, rep)
}
