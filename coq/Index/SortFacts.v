(** General facts about sortedness, filtering and permutations used by the index proofs. *)
From Coq Require Import List NArith Bool Lia Sorted Permutation.
Import ListNotations.
Require Import Verif.Base.Res Verif.Index.Prelude.
Local Open Scope N_scope.

(** lexicographic order of the (value, row id) tuples *)
Definition vr_le (a b : vr) : Prop := fst a < fst b \/ (fst a = fst b /\ snd a <= snd b).
Definition vr_lt (a b : vr) : Prop := fst a < fst b \/ (fst a = fst b /\ snd a < snd b).

Lemma vr_leb_spec a b : vr_leb a b = true <-> vr_le a b.
Proof.
  unfold vr_leb, vr_le. rewrite orb_true_iff, andb_true_iff, N.ltb_lt, N.eqb_eq, N.leb_le. tauto.
Qed.

Lemma vr_leb_false a b : vr_leb a b = false -> vr_lt b a.
Proof.
  unfold vr_leb, vr_lt. rewrite orb_false_iff, andb_false_iff, N.ltb_ge, N.eqb_neq, N.leb_gt.
  intros [H1 [H2|H2]]; lia.
Qed.

Lemma vr_eqb_eq a b : vr_eqb a b = true <-> a = b.
Proof.
  destruct a as [a1 a2], b as [b1 b2]. unfold vr_eqb; simpl.
  rewrite andb_true_iff, !N.eqb_eq. split; [intros [-> ->]; reflexivity | intros H; inversion H; auto].
Qed.

Lemma vr_le_refl a : vr_le a a.
Proof. right. split; [reflexivity | lia]. Qed.

Lemma vr_le_trans a b c : vr_le a b -> vr_le b c -> vr_le a c.
Proof. unfold vr_le. intros [H|[H H']] [G|[G G']]; [left|left|left|right]; try lia. Qed.

Lemma vr_le_antisym a b : vr_le a b -> vr_le b a -> a = b.
Proof.
  destruct a as [a1 a2], b as [b1 b2]. unfold vr_le; simpl.
  intros [H|[H H']] [G|[G G']]; try lia. f_equal; lia.
Qed.

Lemma vr_le_total a b : vr_le a b \/ vr_le b a.
Proof. unfold vr_le. lia. Qed.

Lemma vr_lt_le a b : vr_lt a b -> vr_le a b.
Proof. unfold vr_lt, vr_le. intros [H|[H H']]; [left|right]; try lia. Qed.

Lemma vr_lt_irrefl a : ~ vr_lt a a.
Proof. unfold vr_lt. lia. Qed.

Lemma vr_le_lt_trans a b c : vr_le a b -> vr_lt b c -> vr_lt a c.
Proof. unfold vr_le, vr_lt. intros [H|[H H']] [G|[G G']]; [left|left|left|right]; try lia. Qed.

Lemma vr_lt_trans a b c : vr_lt a b -> vr_lt b c -> vr_lt a c.
Proof. intros H G. eapply vr_le_lt_trans; [apply vr_lt_le; exact H | exact G]. Qed.

(* ---- StronglySorted ------------------------------------------------------------------- *)

Section SS.
Context {A : Type}.

Lemma SS_app (R : A -> A -> Prop) l1 l2 :
  StronglySorted R l1 -> StronglySorted R l2 ->
  (forall a b, In a l1 -> In b l2 -> R a b) -> StronglySorted R (l1 ++ l2).
Proof.
  induction l1 as [|x l1 IH]; simpl; intros H1 H2 H; auto.
  inversion H1; subst. constructor.
  - apply IH; auto.
  - apply Forall_app. split; auto. apply Forall_forall. intros b Hb. apply H; auto.
Qed.

Lemma SS_app_inv (R : A -> A -> Prop) l1 l2 :
  StronglySorted R (l1 ++ l2) ->
  StronglySorted R l1 /\ StronglySorted R l2 /\ (forall a b, In a l1 -> In b l2 -> R a b).
Proof.
  induction l1 as [|x l1 IH]; simpl; intros H.
  - repeat split; auto. constructor. intros a b [].
  - inversion H; subst. destruct (IH H2) as (I1 & I2 & I3).
    apply Forall_app in H3. destruct H3 as [F1 F2].
    repeat split; auto.
    + constructor; auto.
    + intros a b [->|Ha] Hb; [eapply Forall_forall in F2; eauto | auto].
Qed.

Lemma SS_filter (R : A -> A -> Prop) f l : StronglySorted R l -> StronglySorted R (filter f l).
Proof.
  induction 1 as [|x l Hs IH Hf]; simpl; [constructor|].
  destruct (f x); auto. constructor; auto.
  apply Forall_forall. intros y Hy. apply filter_In in Hy. eapply Forall_forall in Hf; [eauto | tauto].
Qed.

(** change of relation, only on the elements of the list *)
Lemma SS_impl_in (R1 R2 : A -> A -> Prop) l :
  StronglySorted R1 l -> (forall a b, In a l -> In b l -> R1 a b -> R2 a b) -> StronglySorted R2 l.
Proof.
  induction 1 as [|x l Hs IH Hf]; intros H; constructor.
  - apply IH. intros; apply H; simpl; auto.
  - apply Forall_forall. intros y Hy. apply H; simpl; auto.
    eapply Forall_forall in Hf; eauto.
Qed.

Lemma SS_flat_map {B} (R : A -> A -> Prop) (f : B -> list A) (ds : list B) (Rd : B -> B -> Prop) :
  StronglySorted Rd ds ->
  (forall d, In d ds -> StronglySorted R (f d)) ->
  (forall d1 d2 a b, Rd d1 d2 -> In a (f d1) -> In b (f d2) -> R a b) ->
  StronglySorted R (flat_map f ds).
Proof.
  induction 1 as [|d ds Hs IH Hf]; intros H1 H2; simpl; [constructor|].
  apply SS_app.
  - apply H1; simpl; auto.
  - apply IH; [intros; apply H1; simpl; auto | exact H2].
  - intros a b Ha Hb. apply in_flat_map in Hb. destruct Hb as (d2 & Hd2 & Hb).
    eapply H2; eauto. eapply Forall_forall in Hf; eauto.
Qed.

Lemma SS_nth (R : A -> A -> Prop) l d : StronglySorted R l ->
  forall i j, (i < j)%nat -> (j < length l)%nat -> R (nth i l d) (nth j l d).
Proof.
  induction 1 as [|x l Hs IH Hf]; intros i j Hij Hj; simpl in Hj; [lia|].
  destruct j as [|j]; [lia|]. destruct i as [|i]; simpl.
  - eapply Forall_forall in Hf; [exact Hf|]. apply nth_In. lia.
  - apply IH; lia.
Qed.

Lemma SS_of_nth (R : A -> A -> Prop) l d :
  (forall i j, (i < j)%nat -> (j < length l)%nat -> R (nth i l d) (nth j l d)) -> StronglySorted R l.
Proof.
  induction l as [|x l IH]; intros H; constructor.
  - apply IH. intros i j Hij Hj. apply (H (S i) (S j)); simpl; lia.
  - apply Forall_forall. intros y Hy. destruct (In_nth _ _ d Hy) as (n & Hn & <-).
    apply (H O (S n)); simpl; lia.
Qed.

End SS.

(** a strictly sorted list has no duplicates *)
Lemma SS_lt_NoDup l : StronglySorted vr_lt l -> NoDup l.
Proof.
  induction 1 as [|x l Hs IH Hf]; constructor; auto.
  intros Hin. eapply Forall_forall in Hf; eauto. exact (vr_lt_irrefl _ Hf).
Qed.

(** uniqueness of the sorted arrangement: any two correct sorts agree *)
Lemma sorted_perm_unique (l1 l2 : list vr) :
  StronglySorted vr_le l1 -> StronglySorted vr_le l2 -> Permutation l1 l2 -> l1 = l2.
Proof.
  revert l2. induction l1 as [|x l1 IH]; intros l2 H1 H2 HP.
  - apply Permutation_nil in HP. auto.
  - destruct l2 as [|y l2]; [apply Permutation_sym, Permutation_nil in HP; discriminate|].
    inversion H1; subst. inversion H2; subst.
    assert (x = y).
    { apply vr_le_antisym.
      - assert (Hy : In y (x :: l1)) by (eapply Permutation_in; [apply Permutation_sym; exact HP | simpl; auto]).
        destruct Hy as [->|Hy]; [apply vr_le_refl | eapply Forall_forall in H4; eauto].
      - assert (Hx : In x (y :: l2)) by (eapply Permutation_in; [exact HP | simpl; auto]).
        destruct Hx as [->|Hx]; [apply vr_le_refl | eapply Forall_forall in H6; eauto]. }
    subst y. f_equal. apply IH; auto. eapply Permutation_cons_inv; eauto.
Qed.

(* ---- partition into buckets is a permutation ---------------------------------------------- *)

Lemma filter_disj_perm {A} (f g : A -> bool) l :
  (forall a, In a l -> f a = true -> g a = false) ->
  Permutation (filter f l ++ filter g l) (filter (fun a => f a || g a) l).
Proof.
  induction l as [|x l IH]; simpl; intros H; [constructor|].
  assert (IH' := IH (fun a Ha => H a (or_intror Ha))).
  destruct (f x) eqn:Ef; simpl.
  - rewrite (H x (or_introl eq_refl) Ef). constructor. exact IH'.
  - destruct (g x); simpl; auto.
    eapply Permutation_trans; [apply Permutation_sym, Permutation_middle|]. constructor. exact IH'.
Qed.

Lemma buckets_perm {A} (key : A -> N) (ds : list N) (l : list A) :
  NoDup ds ->
  Permutation (flat_map (fun d => filter (fun a => key a =? d) l) ds)
              (filter (fun a => existsb (fun d => key a =? d) ds) l).
Proof.
  induction 1 as [|d ds Hnin Hnd IH]; simpl.
  - induction l; simpl; auto.
  - eapply Permutation_trans; [apply Permutation_app_head; exact IH|].
    apply filter_disj_perm. intros a _ Ha. apply N.eqb_eq in Ha.
    apply not_true_is_false. intros He. apply existsb_exists in He. destruct He as (d' & Hd' & He).
    apply N.eqb_eq in He. congruence.
Qed.

Lemma filter_all {A} (f : A -> bool) l : (forall a, In a l -> f a = true) -> filter f l = l.
Proof.
  induction l as [|x l IH]; simpl; intros H; auto.
  rewrite (H x) by auto. f_equal. apply IH. auto.
Qed.

Lemma buckets_perm_all {A} (key : A -> N) (ds : list N) (l : list A) :
  NoDup ds -> (forall a, In a l -> In (key a) ds) ->
  Permutation l (flat_map (fun d => filter (fun a => key a =? d) l) ds).
Proof.
  intros Hnd Hall. apply Permutation_sym.
  eapply Permutation_trans; [apply buckets_perm; exact Hnd|].
  rewrite filter_all; auto.
  intros a Ha. apply existsb_exists. exists (key a). split; [auto | apply N.eqb_refl].
Qed.

(** the tagged form used by the executable model *)
Lemma tagged_filter {A} (key : A -> N) d (l : list A) :
  map snd (filter (fun tp => fst tp =? d) (map (fun p => (key p, p)) l)) = filter (fun a => key a =? d) l.
Proof.
  induction l as [|x l IH]; simpl; auto.
  destruct (key x =? d); simpl; rewrite IH; auto.
Qed.

(* ---- 0..n-1 as N ------------------------------------------------------------------------------ *)

Lemma SS_lt_map_seq a n : StronglySorted N.lt (map N.of_nat (seq a n)).
Proof.
  revert a. induction n as [|n IH]; intros a; simpl; constructor; auto.
  apply Forall_forall. intros y Hy. apply in_map_iff in Hy. destruct Hy as (m & <- & Hm).
  apply in_seq in Hm. lia.
Qed.

Lemma NoDup_of_SS_lt (l : list N) : StronglySorted N.lt l -> NoDup l.
Proof.
  induction 1 as [|x l Hs IH Hf]; constructor; auto.
  intros Hin. eapply Forall_forall in Hf; eauto. lia.
Qed.

Lemma in_map_seq_N n (d : N) : d < N.of_nat n -> In d (map N.of_nat (seq 0 n)).
Proof.
  intros H. apply in_map_iff. exists (N.to_nat d). split; [lia|]. apply in_seq. lia.
Qed.
