//! C17 sequential: exhaustive small op sequences + random long ones on the real
//! `egglog_union_find::UnionFind<usize>`; property predicates evaluated on the implementation;
//! cases written for the translated Coq model.
use verif_harness::util::*;
use verif_harness::Opts;
use egglog_union_find::UnionFind;
use std::collections::{BTreeMap, HashSet};

#[derive(Clone, Copy, Debug, PartialEq, Eq, Hash)]
pub enum Op {
    Union(usize, usize),
    Find(usize),
    Reset,
}

impl Op {
    fn coq(&self) -> String {
        match self {
            Op::Union(a, b) => format!("OUnion {a} {b}"),
            Op::Find(a) => format!("OFind {a}"),
            Op::Reset => "OReset".into(),
        }
    }
    fn json(&self) -> String {
        match self {
            Op::Union(a, b) => format!("[\"union\",{a},{b}]"),
            Op::Find(a) => format!("[\"find\",{a}]"),
            Op::Reset => "[\"reset\"]".into(),
        }
    }
}

/// naive oracle: partition as a vector of class labels, recomputed by relabelling
struct Oracle {
    cls: Vec<usize>,
}
impl Oracle {
    fn ensure(&mut self, n: usize) {
        while self.cls.len() <= n {
            self.cls.push(self.cls.len());
        }
    }
    fn union(&mut self, a: usize, b: usize) {
        self.ensure(a.max(b));
        let (ca, cb) = (self.cls[a], self.cls[b]);
        if ca != cb {
            for c in self.cls.iter_mut() {
                if *c == cb {
                    *c = ca;
                }
            }
        }
    }
    fn reset(&mut self) {
        for (i, c) in self.cls.iter_mut().enumerate() {
            *c = i;
        }
    }
    fn min_of_class(&self, x: usize) -> usize {
        if x >= self.cls.len() {
            return x;
        }
        let c = self.cls[x];
        self.cls.iter().position(|d| *d == c).unwrap()
    }
}

pub struct Outcome {
    pub obs: Vec<usize>,
    pub n: usize,
    pub violation: Option<String>,
    pub nontrivial: bool,
}

/// run one sequence on the real structure, evaluating the property predicate after every op
pub fn run_case(ops: &[Op]) -> Outcome {
    let mut uf: UnionFind<usize> = UnionFind::default();
    let mut or = Oracle { cls: vec![] };
    let mut obs = Vec::new();
    let mut violation = None;
    let mut maxid = 0usize;
    let mut nontrivial = false;
    for (k, op) in ops.iter().enumerate() {
        match *op {
            Op::Union(a, b) => {
                maxid = maxid.max(a).max(b);
                or.ensure(a.max(b));
                let (sa, sb) = (
                    or.cls.iter().filter(|c| **c == or.cls[a]).count(),
                    or.cls.iter().filter(|c| **c == or.cls[b]).count(),
                );
                if or.cls[a] != or.cls[b] && sa >= 2 && sb >= 2 {
                    nontrivial = true;
                }
                let (p, c) = uf.union(a, b);
                or.union(a, b);
                obs.push(p);
                obs.push(c);
            }
            Op::Find(a) => {
                maxid = maxid.max(a);
                or.ensure(a);
                let r = uf.find(a);
                obs.push(r);
                if violation.is_none() && r != or.min_of_class(a) {
                    violation = Some(format!("after op {k}: find({a}) = {r}, least connected id is {}", or.min_of_class(a)));
                }
            }
            Op::Reset => {
                uf.reset();
                or.reset();
            }
        }
        // predicate twin of `run_same_iff_connected` + `rep_is_min`, after every op
        if violation.is_none() {
            for x in 0..=maxid + 1 {
                let r = uf.find_naive(x);
                if r != or.min_of_class(x) {
                    violation = Some(format!(
                        "after op {k} ({op:?}): representative of {x} is {r}, least id connected to it is {}",
                        or.min_of_class(x)
                    ));
                    break;
                }
            }
        }
    }
    let n = maxid + 2;
    for x in 0..n {
        obs.push(uf.find_naive(x));
    }
    Outcome { obs, n, violation, nontrivial }
}

fn all_ops(nids: usize) -> Vec<Op> {
    let mut v = Vec::new();
    for a in 0..nids {
        for b in 0..nids {
            v.push(Op::Union(a, b));
        }
    }
    for a in 0..nids {
        v.push(Op::Find(a));
    }
    v.push(Op::Reset);
    v
}

fn main() {
    let o = verif_harness::parse_opts();
    std::process::exit(run(&o));
}

pub fn run(o: &Opts) -> i32 {
    let header = "From Coq Require Import List NArith.\nImport ListNotations.\nRequire Import Verif.Base.Cases Verif.UF.Ops.\n";
    let mut w = CaseWriter::new(&o.out, "cases_uf", header, "check_case", 700);
    let mut violations: Vec<(Vec<Op>, String)> = Vec::new();
    let mut distinct: HashSet<Vec<Op>> = HashSet::new();
    let mut nontrivial = 0usize;
    let mut hist: BTreeMap<&'static str, usize> = BTreeMap::new();
    let mut len_hist: BTreeMap<usize, usize> = BTreeMap::new();
    let mut samples: Vec<String> = Vec::new();
    let mut emit = |ops: &[Op], w: &mut CaseWriter, exhaustive_part: bool| {
        let out = run_case(ops);
        if let Some(v) = &out.violation {
            violations.push((ops.to_vec(), v.clone()));
        }
        if distinct.insert(ops.to_vec()) && out.nontrivial {
            nontrivial += 1;
        }
        for op in ops {
            *hist.entry(match op {
                Op::Union(..) => "union",
                Op::Find(..) => "find",
                Op::Reset => "reset",
            })
            .or_insert(0) += 1;
        }
        *len_hist.entry(ops.len()).or_insert(0) += 1;
        if (samples.len() < 3 && out.nontrivial) || (!exhaustive_part && samples.len() < 5) {
            samples.push(format!(
                "{{\"ops\":[{}],\"observed\":{:?}}}",
                ops.iter().map(|x| x.json()).collect::<Vec<_>>().join(","),
                out.obs
            ));
        }
        w.push(format!(
            "({}, {}, {})",
            coq_list(ops, |x| x.coq()),
            out.n,
            coq_nat_list(&out.obs)
        ));
    };

    if let Some(path) = &o.replay {
        // replay file: JSON {"ops": [["union",a,b],["find",a],["reset"]...]}
        let txt = std::fs::read_to_string(path).expect("replay file");
        let v: serde_json::Value = serde_json::from_str(&txt).expect("json");
        let ops: Vec<Op> = v["ops"]
            .as_array()
            .expect("ops")
            .iter()
            .map(|e| {
                let a = e.as_array().unwrap();
                match a[0].as_str().unwrap() {
                    "union" => Op::Union(a[1].as_u64().unwrap() as usize, a[2].as_u64().unwrap() as usize),
                    "find" => Op::Find(a[1].as_u64().unwrap() as usize),
                    _ => Op::Reset,
                }
            })
            .collect();
        emit(&ops, &mut w, false);
    } else {
        // 1. exhaustive: every sequence of <= L ops over nids ids
        let (nids, maxlen) = if o.thorough { (4, 4) } else { (3, 4) };
        let ops = all_ops(nids);
        let mut stack: Vec<Vec<Op>> = vec![vec![]];
        while let Some(seq) = stack.pop() {
            if !seq.is_empty() {
                emit(&seq, &mut w, true);
            }
            if seq.len() < maxlen {
                for op in &ops {
                    let mut s = seq.clone();
                    s.push(*op);
                    stack.push(s);
                }
            }
        }
        // 2. random long sequences over a larger id space (growth beyond current capacity, chains)
        let nrand = if o.thorough { 4000 } else { 400 };
        for i in 0..nrand {
            let mut r = Rng::for_case(o.seed, i as u64);
            let ids = r.range(4, 40);
            let len = r.range(5, 60);
            let mut seq = Vec::new();
            for _ in 0..len {
                let k = r.below(100);
                seq.push(if k < 60 {
                    Op::Union(r.below(ids), r.below(ids))
                } else if k < 97 {
                    Op::Find(r.below(ids))
                } else {
                    Op::Reset
                });
            }
            emit(&seq, &mut w, false);
        }
    }
    w.flush();
    let report = format!(
        "{{\"sub\":\"uf\",\"cases\":{},\"shards\":{},\"distinct_nontrivial\":{},\"rule\":{},\"op_hist\":{},\"len_hist\":{},\"samples\":[{}],\"violations\":[{}]}}\n",
        w.total,
        w.shards,
        nontrivial,
        json_str("exhaustive op sequences (union/find/reset) over a small id space plus seeded random long sequences; a case is non-trivial iff some union joins two classes that both already have >= 2 members; distinct by the op sequence"),
        serde_json::to_string(&hist).unwrap(),
        serde_json::to_string(&len_hist.iter().map(|(k, v)| (k.to_string(), *v)).collect::<BTreeMap<_, _>>()).unwrap(),
        samples.join(","),
        violations
            .iter()
            .take(20)
            .map(|(ops, msg)| format!(
                "{{\"ops\":[{}],\"what\":{}}}",
                ops.iter().map(|x| x.json()).collect::<Vec<_>>().join(","),
                json_str(msg)
            ))
            .collect::<Vec<_>>()
            .join(",")
    );
    std::fs::write(o.out.join("impl_report.json"), report).unwrap();
    0
}
