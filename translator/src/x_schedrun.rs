//! Extension module (Tier A) for C10. Output: coq/gen/SchedRunFacts.v
//! Contract: return (text of the .v file, report lines). Each report line is one JSON object
//! {"item":"SchedRunFacts.<name>","file":"<rust file>","ok":true|false[,"error":"..."]}.
//! Fail closed: when a site is not recognised, OMIT the Gallina definition (so dependent proofs stop
//! compiling) and push an ok:false report line.
//!
//! Items (all read from the Rust source on every run; expressions are translated structurally, so
//! a changed Rust expression gives a changed Gallina definition or a failed item):
//!   desugar_run          src/ast/parse.rs `parse_command`, arms "run" and "run-schedule": the schedule
//!                        built by `(run R n :until ..)` (Repeat n (Run cfg)) and `(run-schedule ..)`
//!   desugar_schedule     src/ast/parse.rs `parse_schedule`: bare atom, saturate, seq, repeat, run
//!   table_merge_changed  core-relations/src/free_join/mod.rs `merge_all` (2 sites) + `merge_simple`
//!                        (1 site): which results of a table merge feed the database `changed` flag
//!   merge_callback_changed  egglog-bridge/src/lib.rs `MergeFn::to_callback`: `changed |= cur != out`
//!                        for the return-value column and for the subsume column
//!   iteration_changed    egglog-reports `IterationReport::changed`, `RunReport::singleton`
//!                        (`updated = iteration.changed(); can_stop = !updated`) and egglog-bridge
//!                        `run_rules_inner` (the report is the one of `run_rules_impl`; nothing that
//!                        follows -- the rebuild -- assigns to a `changed`)
//!   rebuild_needed       egglog-bridge `run_rules_inner`: the rebuild is skipped iff
//!                        `uf_size_before == uf_size_after`
use quote::ToTokens;
use std::path::Path;
use syn::visit::Visit;

const PARSE: &str = "src/ast/parse.rs";
const FJ: &str = "core-relations/src/free_join/mod.rs";
const BRIDGE: &str = "egglog-bridge/src/lib.rs";
const REPORTS: &str = "egglog-reports/src/lib.rs";

fn toks<T: ToTokens>(t: &T) -> String {
    t.to_token_stream().to_string().chars().filter(|c| !c.is_whitespace()).collect()
}

fn parse(repo: &Path, rel: &str) -> Result<syn::File, String> {
    let src = std::fs::read_to_string(repo.join(rel)).map_err(|e| format!("{rel}: {e}"))?;
    syn::parse_file(&src).map_err(|e| format!("{rel}: {e}"))
}

/// all functions (free or in impls) called `name`, outside #[cfg(test)] modules
fn find_fns(file: &syn::File, name: &str) -> Vec<syn::Block> {
    struct F<'n> {
        name: &'n str,
        found: Vec<syn::Block>,
    }
    impl<'ast, 'n> Visit<'ast> for F<'n> {
        fn visit_impl_item_fn(&mut self, f: &'ast syn::ImplItemFn) {
            if f.sig.ident == self.name {
                self.found.push(f.block.clone());
            }
            syn::visit::visit_impl_item_fn(self, f);
        }
        fn visit_item_fn(&mut self, f: &'ast syn::ItemFn) {
            if f.sig.ident == self.name {
                self.found.push((*f.block).clone());
            }
            syn::visit::visit_item_fn(self, f);
        }
        fn visit_item_mod(&mut self, m: &'ast syn::ItemMod) {
            if m.attrs.iter().any(|a| toks(a).contains("test")) {
                return;
            }
            syn::visit::visit_item_mod(self, m);
        }
    }
    let mut v = F { name, found: vec![] };
    v.visit_file(file);
    v.found
}

fn one_fn(file: &syn::File, name: &str) -> Result<syn::Block, String> {
    let mut v = find_fns(file, name);
    if v.len() != 1 {
        return Err(format!("expected exactly one fn {name}, found {}", v.len()));
    }
    Ok(v.remove(0))
}

// ---------------------------------------------------------------------------------------------
// schedule-building expressions

/// `Schedule::Repeat(span, limit, Box::new(..))` etc. -> Gallina over Sched/Syntax.v
fn sched_expr(e: &syn::Expr) -> Result<String, String> {
    use syn::Expr;
    match e {
        Expr::Paren(p) => sched_expr(&p.expr),
        Expr::Path(p) => {
            let s = toks(p);
            if s == "None" || p.path.get_ident().is_some() {
                Ok(s)
            } else {
                Err(format!("unexpected path {s}"))
            }
        }
        Expr::MethodCall(m) if m.method == "clone" && m.args.is_empty() => sched_expr(&m.receiver),
        Expr::Try(t) => {
            // map_fallible(tail, self, Self::parse_schedule)?  -> the list `tail` of parsed schedules
            let s = toks(&t.expr);
            if let Some(rest) = s.strip_prefix("map_fallible(") {
                if let Some(var) = rest.strip_suffix(",self,Self::parse_schedule)") {
                    if var.chars().all(|c| c.is_alphanumeric() || c == '_') {
                        return Ok(var.to_string());
                    }
                }
            }
            Err(format!("unexpected fallible expression {s}"))
        }
        Expr::Call(c) => {
            let f = toks(&c.func);
            let args: Vec<&syn::Expr> = c.args.iter().collect();
            match (f.as_str(), args.len()) {
                ("Box::new", 1) => sched_expr(args[0]),
                ("Schedule::Repeat", 3) => Ok(format!("(Repeat {} {})", sched_expr(args[1])?, sched_expr(args[2])?)),
                ("Schedule::Saturate", 2) => Ok(format!("(Saturate {})", sched_expr(args[1])?)),
                ("Schedule::Sequence", 2) => Ok(format!("(Sequence {})", sched_expr(args[1])?)),
                ("Schedule::Run", 2) => Ok(format!("(Run {})", sched_expr(args[1])?)),
                _ => Err(format!("unexpected call {f}/{}", args.len())),
            }
        }
        Expr::Struct(s) => {
            if toks(&s.path) != "RunConfig" || s.rest.is_some() || s.fields.len() != 2 {
                return Err(format!("unexpected struct literal {}", toks(s)));
            }
            let mut rs = None;
            let mut un = None;
            for f in &s.fields {
                let name = toks(&f.member);
                let v = sched_expr(&f.expr)?;
                match name.as_str() {
                    "ruleset" => rs = Some(v),
                    "until" => un = Some(v),
                    _ => return Err(format!("unexpected RunConfig field {name}")),
                }
            }
            Ok(format!("(mkConfig {} {})", rs.ok_or("no ruleset")?, un.ok_or("no until")?))
        }
        other => Err(format!("unexpected schedule expression {}", toks(other))),
    }
}

/// the arm `"<head>" => body` of the (first) `match head.as_str()` of a function
fn head_arm(block: &syn::Block, head: &str) -> Result<syn::Expr, String> {
    struct M {
        arms: Vec<syn::Arm>,
    }
    impl<'ast> Visit<'ast> for M {
        fn visit_expr_match(&mut self, m: &'ast syn::ExprMatch) {
            if self.arms.is_empty() && toks(&m.expr) == "head.as_str()" {
                self.arms = m.arms.clone();
                return;
            }
            syn::visit::visit_expr_match(self, m);
        }
    }
    let mut v = M { arms: vec![] };
    v.visit_block(block);
    let want = format!("\"{head}\"");
    let found: Vec<&syn::Arm> = v.arms.iter().filter(|a| toks(&a.pat) == want && a.guard.is_none()).collect();
    if found.len() != 1 {
        return Err(format!("expected one arm {want}, found {}", found.len()));
    }
    Ok((*found[0].body).clone())
}

/// value of an arm: the tail expression of a block body, or the body itself
fn tail_expr(e: &syn::Expr) -> Result<syn::Expr, String> {
    match e {
        syn::Expr::Block(b) => match b.block.stmts.last() {
            Some(syn::Stmt::Expr(x, None)) => Ok(x.clone()),
            _ => Err("block without tail expression".into()),
        },
        other => Ok(other.clone()),
    }
}

/// `vec![Command::RunSchedule(<sched>)]` -> <sched>
fn run_schedule_vec(e: &syn::Expr) -> Result<syn::Expr, String> {
    let mac = match e {
        syn::Expr::Macro(m) if toks(&m.mac.path) == "vec" => &m.mac,
        other => return Err(format!("expected vec![..], found {}", toks(other))),
    };
    let items = mac
        .parse_body_with(syn::punctuated::Punctuated::<syn::Expr, syn::Token![,]>::parse_terminated)
        .map_err(|e| format!("vec! body: {e}"))?;
    if items.len() != 1 {
        return Err("vec! with more than one command".into());
    }
    match &items[0] {
        syn::Expr::Call(c) if toks(&c.func) == "Command::RunSchedule" && c.args.len() == 1 => Ok(c.args[0].clone()),
        other => Err(format!("expected Command::RunSchedule(..), found {}", toks(other))),
    }
}

fn until_binding_ok(body: &syn::Expr) -> Result<(), String> {
    let s = toks(body);
    let want = "letuntil=matchself.parse_options(rest)?.as_slice(){[]=>None,[(\":until\",facts)]=>Some(map_fallible(facts,self,Self::parse_fact)?),_=>returnerror!(span,\"couldnotparserunoptions\"),};";
    if s.contains(want) {
        Ok(())
    } else {
        Err("the `until` binding (match on parse_options: [] => None, [(\":until\", facts)] => Some(..)) was not recognised".into())
    }
}

fn item_desugar_run(repo: &Path) -> Result<String, String> {
    let file = parse(repo, PARSE)?;
    let pc = one_fn(&file, "parse_command")?;
    let run = head_arm(&pc, "run")?;
    until_binding_ok(&run)?;
    let s = toks(&run);
    if !s.contains("tail[1].expect_uint(\"numberofiterations\")?") || !s.contains("tail[0].expect_uint(\"numberofiterations\")?") {
        return Err("binding of `limit` not recognised".into());
    }
    let run_s = sched_expr(&run_schedule_vec(&tail_expr(&run)?)?)?;
    let rs = head_arm(&pc, "run-schedule")?;
    let rs_s = sched_expr(&run_schedule_vec(&tail_expr(&rs)?)?)?;
    Ok(format!(
        "(* parse_command, arm \"run\": (run R n :until f) *)\nDefinition desugar_run {{R F : Type}} (ruleset : R) (limit : nat) (until : option F) : schedule R F :=\n  {run_s}.\n\n(* parse_command, arm \"run-schedule\" *)\nDefinition desugar_run_schedule {{R F : Type}} (tail : list (schedule R F)) : schedule R F :=\n  {rs_s}.\n"
    ))
}

fn item_desugar_schedule(repo: &Path) -> Result<String, String> {
    let file = parse(repo, PARSE)?;
    let ps = one_fn(&file, "parse_schedule")?;
    // leading `if let Sexp::Atom(ruleset, span) = sexp { return Ok(Schedule::Run(..)); }`
    let atom = match ps.stmts.first() {
        Some(syn::Stmt::Expr(syn::Expr::If(i), _)) if toks(&i.cond) == "letSexp::Atom(ruleset,span)=sexp" && i.else_branch.is_none() => {
            match i.then_branch.stmts.as_slice() {
                [syn::Stmt::Expr(syn::Expr::Return(r), _)] => match r.expr.as_deref() {
                    Some(syn::Expr::Call(c)) if toks(&c.func) == "Ok" && c.args.len() == 1 => sched_expr(&c.args[0])?,
                    _ => return Err("atom case: return Ok(..) not recognised".into()),
                },
                _ => return Err("atom case: body not recognised".into()),
            }
        }
        _ => return Err("atom case (if let Sexp::Atom ..) not recognised".into()),
    };
    let sat = sched_expr(&tail_expr(&head_arm(&ps, "saturate")?)?)?;
    let seq = sched_expr(&tail_expr(&head_arm(&ps, "seq")?)?)?;
    let rep = match head_arm(&ps, "repeat")? {
        syn::Expr::Match(m) if toks(&m.expr) == "tail" => {
            let arms: Vec<&syn::Arm> = m.arms.iter().filter(|a| toks(&a.pat) == "[limit,tail@..]").collect();
            if arms.len() != 1 || m.arms.len() != 2 {
                return Err("repeat: arms not recognised".into());
            }
            let b = toks(&arms[0].body);
            if !b.contains("limit.expect_uint(\"numberofiterations\")?") {
                return Err("repeat: limit not recognised".into());
            }
            // replace the parsed limit by the variable
            let e: syn::Expr = syn::parse_str(&arms[0].body.to_token_stream().to_string().replace("limit . expect_uint (\"number of iterations\") ?", "limit"))
                .map_err(|e| format!("repeat: {e}"))?;
            sched_expr(&e)?
        }
        _ => return Err("repeat: match tail not recognised".into()),
    };
    let run = head_arm(&ps, "run")?;
    until_binding_ok(&run)?;
    let leaf = sched_expr(&tail_expr(&run)?)?;
    Ok(format!(
        "(* parse_schedule *)\nDefinition desugar_atom {{R F : Type}} (ruleset : R) : schedule R F :=\n  {atom}.\nDefinition desugar_saturate {{R F : Type}} (tail : list (schedule R F)) : schedule R F :=\n  {sat}.\nDefinition desugar_seq {{R F : Type}} (tail : list (schedule R F)) : schedule R F :=\n  {seq}.\nDefinition desugar_repeat {{R F : Type}} (limit : nat) (tail : list (schedule R F)) : schedule R F :=\n  {rep}.\nDefinition desugar_run_leaf {{R F : Type}} (ruleset : R) (until : option F) : schedule R F :=\n  {leaf}.\n"
    ))
}

// ---------------------------------------------------------------------------------------------
// the `changed` flag

fn bool_expr(e: &syn::Expr) -> Result<String, String> {
    use syn::Expr;
    match e {
        Expr::Paren(p) => bool_expr(&p.expr),
        Expr::Binary(b) => match b.op {
            syn::BinOp::Or(_) => Ok(format!("({} || {})", bool_expr(&b.left)?, bool_expr(&b.right)?)),
            syn::BinOp::And(_) => Ok(format!("({} && {})", bool_expr(&b.left)?, bool_expr(&b.right)?)),
            _ => Err(format!("unexpected operator in {}", toks(b))),
        },
        Expr::Unary(u) if matches!(u.op, syn::UnOp::Not(_)) => Ok(format!("(negb {})", bool_expr(&u.expr)?)),
        Expr::Lit(l) => match toks(l).as_str() {
            "true" => Ok("true".into()),
            "false" => Ok("false".into()),
            s => Err(format!("unexpected literal {s}")),
        },
        Expr::Field(f) => {
            let base = toks(&f.base);
            let m = toks(&f.member);
            if base.ends_with(".table.merge(&mutes)") && (m == "added" || m == "removed") {
                Ok(m)
            } else if base == "es" && m == "changed" {
                Ok("es_changed".into())
            } else {
                Err(format!("unexpected field access {}", toks(f)))
            }
        }
        other => Err(format!("unexpected expression {}", toks(other))),
    }
}

fn item_table_merge_changed(repo: &Path) -> Result<String, String> {
    let file = parse(repo, FJ)?;
    struct V {
        found: Vec<syn::Expr>,
    }
    impl<'ast> Visit<'ast> for V {
        fn visit_expr(&mut self, e: &'ast syn::Expr) {
            // top-most boolean expression that mentions a table merge
            let is_bool = match e {
                syn::Expr::Binary(b) => matches!(b.op, syn::BinOp::Or(_) | syn::BinOp::And(_)),
                syn::Expr::Field(_) => true,
                syn::Expr::Unary(u) => matches!(u.op, syn::UnOp::Not(_)),
                _ => false,
            };
            if is_bool && toks(e).contains(".merge(&mutes)") {
                self.found.push(e.clone());
                return;
            }
            // any other use of a table merge result must be seen as well
            if let syn::Expr::MethodCall(m) = e {
                if m.method == "merge" && toks(&m.args) == "&mutes" {
                    self.found.push(e.clone());
                    return;
                }
            }
            syn::visit::visit_expr(self, e);
        }
    }
    let mut all = vec![];
    for (name, n) in [("merge_all", 2usize), ("merge_simple", 1usize)] {
        let b = one_fn(&file, name)?;
        let mut v = V { found: vec![] };
        v.visit_block(&b);
        if v.found.len() != n {
            return Err(format!("{name}: expected {n} uses of a table merge result, found {}", v.found.len()));
        }
        all.extend(v.found);
    }
    let tr: Vec<String> = all.iter().map(bool_expr).collect::<Result<_, _>>()?;
    if tr.iter().any(|t| *t != tr[0]) {
        return Err(format!("the merge sites disagree: {tr:?}"));
    }
    // the site of merge_simple must be `changed |= ..` and merge_all must or the results together
    let ms = toks(&one_fn(&file, "merge_simple")?);
    if !ms.contains("changed|=info.table.merge(&mutes)") || !ms.ends_with("changed}") {
        return Err("merge_simple: accumulation into `changed` not recognised".into());
    }
    let ma = toks(&one_fn(&file, "merge_all")?);
    for w in ["ever_changed|=self.merge_simple(", "ever_changed|=changed;", ".any(|changed|changed)", ".max().unwrap_or(false)"] {
        if !ma.contains(w) {
            return Err(format!("merge_all: `{w}` not found"));
        }
    }
    if !ma.ends_with("ever_changed}") {
        return Err("merge_all: does not return ever_changed".into());
    }
    Ok(format!(
        "(* merge_all / merge_simple: what one table merge contributes to the database `changed` flag *)\nDefinition table_merge_changed (added removed es_changed : bool) : bool :=\n  {}.\n",
        tr[0]
    ))
}

fn item_merge_callback_changed(repo: &Path) -> Result<String, String> {
    let file = parse(repo, BRIDGE)?;
    let b = one_fn(&file, "to_callback")?;
    let s = toks(&b);
    for w in ["letmutchanged=false;", "letout=resolved.run(state,cur,new,timestamp);", "letout=combine_subsumed(cur,new);", "ifchanged{", "changed})}"] {
        if !s.contains(w) {
            return Err(format!("to_callback: `{w}` not found"));
        }
    }
    struct V {
        found: Vec<syn::Expr>,
        other: usize,
    }
    impl<'ast> Visit<'ast> for V {
        fn visit_expr_binary(&mut self, e: &'ast syn::ExprBinary) {
            if toks(&e.left) == "changed" {
                if matches!(e.op, syn::BinOp::BitOrAssign(_)) {
                    self.found.push((*e.right).clone());
                } else {
                    self.other += 1;
                }
            }
            syn::visit::visit_expr_binary(self, e);
        }
        fn visit_expr_assign(&mut self, e: &'ast syn::ExprAssign) {
            if toks(&e.left).contains("changed") {
                self.other += 1;
            }
            syn::visit::visit_expr_assign(self, e);
        }
    }
    let mut v = V { found: vec![], other: 0 };
    v.visit_block(&b);
    if v.found.len() != 2 || v.other != 0 {
        return Err(format!("to_callback: expected two `changed |= ..` and no other update, found {} / {}", v.found.len(), v.other));
    }
    // the first one must sit in the ret_val block, the second in the subsume closure
    let p1 = s.find("letret_val={").ok_or("ret_val block not found")?;
    let p2 = s.find("letsubsume=schema_math.subsume.then(||{").ok_or("subsume closure not found")?;
    let c1 = s.find("changed|=").ok_or("no update")?;
    let c2 = s.rfind("changed|=").ok_or("no update")?;
    if !(p1 < c1 && c1 < p2 && p2 < c2) {
        return Err("to_callback: the updates of `changed` are not in the ret_val block / subsume closure".into());
    }
    let cmp = |e: &syn::Expr, f: &str, pre: &str| -> Result<String, String> {
        match e {
            syn::Expr::Binary(b) if toks(&b.left) == "cur" && toks(&b.right) == "out" => match b.op {
                syn::BinOp::Ne(_) => Ok(format!("{f} {pre}_cur {pre}_out")),
                syn::BinOp::Eq(_) => Ok(format!("negb ({f} {pre}_cur {pre}_out)")),
                _ => Err(format!("unexpected comparison {}", toks(b))),
            },
            other => Err(format!("unexpected update {}", toks(other))),
        }
    };
    let a = cmp(&v.found[0], "vneq", "ret")?;
    let c = cmp(&v.found[1], "wneq", "sub")?;
    Ok(format!(
        "(* MergeFn::to_callback: the merge of a colliding row reports a change iff the merged return\n   value differs from the stored one or the combined subsume flag differs from the stored one *)\nDefinition merge_callback_changed {{V W : Type}} (vneq : V -> V -> bool) (wneq : W -> W -> bool)\n    (ret_cur ret_out : V) (sub_cur sub_out : W) : bool :=\n  ((false || {a}) || {c}).\n"
    ))
}

fn item_iteration_changed(repo: &Path) -> Result<String, String> {
    let rep = parse(repo, REPORTS)?;
    // IterationReport::changed (the only fn `changed` with a bool result in the reports crate)
    let ch = find_fns(&rep, "changed");
    if ch.len() != 1 || toks(&ch[0]) != "{self.rule_set_report.changed}" {
        return Err("IterationReport::changed is not `self.rule_set_report.changed`".into());
    }
    let sg = toks(&one_fn(&rep, "singleton")?);
    for w in ["report.updated=iteration.changed();", "report.can_stop=!report.updated;"] {
        if !sg.contains(w) {
            return Err(format!("RunReport::singleton: `{w}` not found"));
        }
    }
    let br = parse(repo, BRIDGE)?;
    let b = one_fn(&br, "run_rules_inner")?;
    let s = toks(&b);
    for w in ["letrule_set_report=run_rules_impl(", "IterationReport{rule_set_report,rebuild_time:Duration::ZERO", "Ok(iteration_report)}"] {
        if !s.contains(w) {
            return Err(format!("run_rules_inner: `{w}` not found"));
        }
    }
    struct V {
        bad: Vec<String>,
    }
    impl<'ast> Visit<'ast> for V {
        fn visit_expr_assign(&mut self, e: &'ast syn::ExprAssign) {
            let l = toks(&e.left);
            if l.contains("changed") || l.contains("rule_set_report") {
                self.bad.push(l);
            }
            syn::visit::visit_expr_assign(self, e);
        }
        fn visit_expr_binary(&mut self, e: &'ast syn::ExprBinary) {
            let is_assign = matches!(
                e.op,
                syn::BinOp::BitOrAssign(_) | syn::BinOp::BitAndAssign(_) | syn::BinOp::BitXorAssign(_) | syn::BinOp::AddAssign(_)
            );
            let l = toks(&e.left);
            if is_assign && (l.contains("changed") || l.contains("rule_set_report")) {
                self.bad.push(l);
            }
            syn::visit::visit_expr_binary(self, e);
        }
    }
    let mut v = V { bad: vec![] };
    v.visit_block(&b);
    if !v.bad.is_empty() {
        return Err(format!("run_rules_inner assigns to {:?}", v.bad));
    }
    Ok("(* IterationReport::changed = rule_set_report.changed; run_rules_inner reports the flag of\n   run_rules_impl and nothing after it (the rebuild) assigns to it; RunReport::singleton sets\n   updated = changed, can_stop = not updated *)\nDefinition iteration_changed (rule_set_changed rebuild_changed : bool) : bool :=\n  rule_set_changed.\n".to_string())
}

fn item_rebuild_needed(repo: &Path) -> Result<String, String> {
    let br = parse(repo, BRIDGE)?;
    let b = one_fn(&br, "run_rules_inner")?;
    let s = toks(&b);
    for w in ["letuf_size_before=self.db.get_table(self.uf_table).len();", "letuf_size_after=self.db.get_table(self.uf_table).len();"] {
        if !s.contains(w) {
            return Err(format!("run_rules_inner: `{w}` not found"));
        }
    }
    // the `if <cond> { self.inc_ts(); return Ok(iteration_report); }` statement
    let mut cond = None;
    for st in &b.stmts {
        if let syn::Stmt::Expr(syn::Expr::If(i), _) = st {
            if toks(&i.then_branch).ends_with("self.inc_ts();returnOk(iteration_report);}") && i.else_branch.is_none() {
                cond = Some((*i.cond).clone());
            }
        }
    }
    let cond = cond.ok_or("early return (no rebuild) not found")?;
    let g = match &cond {
        syn::Expr::Binary(bn) => {
            let (l, r) = (toks(&bn.left), toks(&bn.right));
            let names = ["uf_size_before", "uf_size_after"];
            if !names.contains(&l.as_str()) || !names.contains(&r.as_str()) || l == r {
                return Err(format!("unexpected condition {}", toks(bn)));
            }
            match bn.op {
                syn::BinOp::Eq(_) => format!("negb ({l} =? {r})"),
                syn::BinOp::Ne(_) => format!("negb (negb ({l} =? {r}))"),
                _ => return Err(format!("unexpected condition {}", toks(bn))),
            }
        }
        other => return Err(format!("unexpected condition {}", toks(other))),
    };
    Ok(format!(
        "(* run_rules_inner: the rebuild runs iff the union-find table grew during the iteration *)\nDefinition rebuild_needed (uf_size_before uf_size_after : nat) : bool :=\n  {g}.\n"
    ))
}

pub fn generate(repo: &Path) -> (String, Vec<String>) {
    let mut out = String::from(
        "(* GENERATED by /verif/translator (x_schedrun.rs) from /repo/src/ast/parse.rs, /repo/core-relations/src/free_join/mod.rs, /repo/egglog-bridge/src/lib.rs, /repo/egglog-reports/src/lib.rs -- do not edit *)\nFrom Coq Require Import List Arith PeanoNat Bool.\nImport ListNotations.\nRequire Import Verif.Sched.Syntax.\n\n",
    );
    let mut report = vec![];
    let items: Vec<(&str, &str, fn(&Path) -> Result<String, String>)> = vec![
        ("desugar_run", PARSE, item_desugar_run),
        ("desugar_schedule", PARSE, item_desugar_schedule),
        ("table_merge_changed", FJ, item_table_merge_changed),
        ("merge_callback_changed", BRIDGE, item_merge_callback_changed),
        ("iteration_changed", "egglog-reports/src/lib.rs + egglog-bridge/src/lib.rs", item_iteration_changed),
        ("rebuild_needed", BRIDGE, item_rebuild_needed),
    ];
    for (name, file, f) in items {
        match f(repo) {
            Ok(text) => {
                out.push_str(&text);
                out.push('\n');
                report.push(format!("{{\"item\":\"SchedRunFacts.{name}\",\"file\":\"{file}\",\"ok\":true}}"));
            }
            Err(e) => {
                out.push_str(&format!("(* item {name} NOT regenerated *)\n\n"));
                let e = e.replace('\\', "\\\\").replace('"', "\\\"");
                report.push(format!("{{\"item\":\"SchedRunFacts.{name}\",\"file\":\"{file}\",\"ok\":false,\"error\":\"{e}\"}}"));
            }
        }
    }
    (out, report)
}
