"""C12 configuration for bin/check."""

CFG = {
        "tier_a": ["ProofChkFacts.justification_kinds", "ProofChkFacts.checker_arms", "ProofChkFacts.action_arms",
                   "ProofChkFacts.fact_arms", "ProofChkFacts.eval_props_arms", "ProofChkFacts.eval_term_arms",
                   "ProofChkFacts.ctx_new_shape", "ProofChkFacts.run_merge_shape", "ProofChkFacts.rule_produces_shape"],
        "model_targets": ["ProofChk/Checker.vo"],
        "proof_targets": ["Props/C12.vo"],
        "harness": [{"bin": "h_proofs", "prefix": "cases_proofs"}],
        # the Gallina checker is proved sound (c12_checker_sound) and the compared observation is
        # the accept/reject verdict the property constrains: a disagreement is the failing input
        "corr_is_violation": True,
        "trusted": [
            "coq/ProofChk/Checker.v is a hand-written Gallina re-implementation of src/proofs/proof_checker.rs "
            "(check_proof_with_context, process_actions, eval_expr_with_subst, check_fact_matches_proposition, "
            "check_rule_produces_equality); it is tied to the source by running both on the same proof objects "
            "(hook H3: EGraph::verif_recheck_proof / verif_proof_check_program, ProofStore::verif_len) and comparing verdicts",
            "the harness parses the checking program printed by the hook (egglog text) and numbers its names for the model",
        ],
        "theorem_backed": "[session 4] the proof checker's dispatch (justification kinds, every arm with premise counts, error kinds, comparisons, helper calls; 9 tables) is REGENERATED (gen/ProofChkFacts.v); c12_dispatch_table_drives_checker (the Gallina checker driven by the regenerated table = the hand checker), c12_tbl_accepted_iff_derivable, c12_dispatch_pinned (also the link-only MergeFn / ContainerNormalize / Eval arms are pinned in shape); the checker for Fiat / Rule / Trans / Sym / Congr steps over programs of top-level let/union/expression "
                          "actions and rules on constructors and relations (subsume/delete/panic actions contribute nothing): "
                          "soundness w.r.t. the derivation relation of the un-instrumented program for all programs and proofs, "
                          "rejection of every single-point alteration (rule or action removed, dropped premise, conclusion not in "
                          "the rule head, Trans middle terms / swapped operands, Congr index / head / child, substituted term), "
                          "Derivable within the congruence closure of the asserted unions for rule-free programs",
        "link_only": "prove <=> match <=> check agreement, no panic, acceptance of the returned proof before and after "
                     "simplification (simplify itself), MergeFn / ContainerNormalize / Eval steps, primitives and custom-function "
                     "facts, proof extraction and the proof encoding: harness predicates on the real engine only",
        "assumptions": [
            "constructor, variable and rule names are numbered injectively by the harness (nat in the model)",
            "the memo table of check_proof_with_context is modelled by checking the unfolded proof tree (same verdict: a node's result depends only on the node)",
            "i64 literals are modelled as unbounded Z; other literal kinds are outside the modelled fragment",
        ],
    }
