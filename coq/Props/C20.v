(** C20 — Single-threaded runs are reproducible bit for bit.
    PARTIAL for this technique (see Det/Inventory.v header and DESIGN.md 8): the theorems are
    kernel-checked facts about the regenerated source inventory; address / hash-seed / clock
    independence of the real binary is decided by the correspondence harness only. *)
From Coq Require Import List String Bool.
Import ListNotations.
Require Import Verif.gen.SourceFacts Verif.Det.Inventory.

(** every hash-container type alias in non-test workspace code uses the fixed (unseeded) hasher *)
Theorem c20_aliases_use_fixed_hasher : forall f n h, In (f, n, h) hash_aliases -> h = HFx.
Proof. exact aliases_fixed_spec. Qed.
Print Assumptions c20_aliases_use_fixed_hasher.

(** the only non-test files that name the randomly seeded std hash containers are allow-listed *)
Theorem c20_std_hash_users_allowlisted : std_users_allowed = true.
Proof. exact std_users_allowed_true. Qed.
Print Assumptions c20_std_hash_users_allowlisted.

(** library hash containers with their default (randomly seeded) hasher are used exactly at the
    allow-listed sites (file, number of uses): a new use anywhere falsifies this *)
Theorem c20_default_hasher_sites_allowlisted : default_sites_allowed = true.
Proof. exact default_sites_allowed_true. Qed.
Print Assumptions c20_default_hasher_sites_allowlisted.

(** the inventory is not vacuous *)
Theorem c20_inventory_nonempty : hash_aliases <> [].
Proof. exact inventory_nonempty. Qed.
Print Assumptions c20_inventory_nonempty.

(** ------------------------------------------------------------------------------------------
    Session 4: an executable model of iteration-order determinism (Det/IterModel.v), tied to the
    source through the regenerated iteration-site / nondeterminism-source inventories of
    gen/DetFacts.v (translator/src/x_det.rs) and their reviewed classification (Det/Sites.v). *)
Require Import Verif.gen.DetFacts Verif.Det.IterModel Verif.Det.IterProofs Verif.Det.Sites.

(** (a) an insertion-ordered container (IndexMap/IndexSet) shows the hasher-free replay of its
    operation history: for EVERY hasher and initial capacity *)
Theorem c20_insertion_ordered_iteration_any_hasher :
  forall (h : nat -> nat) (nb0 : nat) (ops : list op), im_iter (im_run h nb0 ops) = ref_run ops.
Proof. exact im_iter_is_history. Qed.
Print Assumptions c20_insertion_ordered_iteration_any_hasher.

(** (b) a bucket-ordered table (hashbrown) shows an order that is a function of (history, hasher
    VALUES, capacity policy): two processes that agree on those agree on the order *)
Theorem c20_bucket_iteration_function_of_history_seed_policy :
  forall (h1 h2 : nat -> nat) (pol1 pol2 : policy) (ops : list op),
    (forall k, h1 k = h2 k) -> pol1 = pol2 ->
    t_iter (t_run h1 pol1 ops) = t_iter (t_run h2 pol2 ops).
Proof. exact t_iter_function_of_history_seed_policy. Qed.
Print Assumptions c20_bucket_iteration_function_of_history_seed_policy.

(** (b') a sharded map (DashMap): additionally a function of the shard count *)
Theorem c20_sharded_iteration_function_of_history_seed_policy_shards :
  forall (h1 h2 : nat -> nat) (n1 n2 : nat) (pol1 pol2 : policy) (ops : list op),
    (forall k, h1 k = h2 k) -> n1 = n2 -> pol1 = pol2 ->
    sh_iter (sh_run h1 n1 pol1 ops) = sh_iter (sh_run h2 n2 pol2 ops).
Proof. exact sh_iter_function_of_history_seed_policy_shards. Qed.
Print Assumptions c20_sharded_iteration_function_of_history_seed_policy_shards.

(** process level: a container class whose hasher values / capacity policy / shard count do not
    vary with the environment (seed, CPUs, address-space base) shows the same order in every
    process; an insertion-ordered class needs no hypothesis at all *)
Theorem c20_fixed_class_reproducible :
  forall c : cmodel, env_fixed c -> forall e1 e2 ops, observe c e1 ops = observe c e2 ops.
Proof. exact observe_env_independent. Qed.
Print Assumptions c20_fixed_class_reproducible.

(** (c) with a per-process seed the order is NOT reproducible (witness evaluated by the kernel) *)
Theorem c20_seeded_bucket_order_refuted :
  exists e1 e2 ops, observe class_seeded_bucket e1 ops <> observe class_seeded_bucket e2 ops.
Proof. exact seeded_bucket_order_refuted. Qed.
Print Assumptions c20_seeded_bucket_order_refuted.

(** (c') with the SAME fixed hasher but the default DashMap shard count (a function of the CPUs the
    process may use) the order is not reproducible either: the shape of finding F13 *)
Theorem c20_dash_default_order_refuted :
  exists e1 e2 ops, e_seed e1 = e_seed e2 /\
    observe class_dash_default e1 ops <> observe class_dash_default e2 ops.
Proof. exact dash_default_order_refuted. Qed.
Print Assumptions c20_dash_default_order_refuted.

(** the two source classes that need no review are exactly those the model proves reproducible *)
Theorem c20_det_class_sound : forall c m, class_det c = true -> class_models c m ->
  forall e1 e2 ops, observe m e1 ops = observe m e2 ops.
Proof. exact det_class_sound. Qed.
Print Assumptions c20_det_class_sound.

(** TIE: every iteration site of the current source (regenerated) is over a theorem-backed class
    or is a reviewed site (same file, fn, receiver, class and count) *)
Theorem c20_iter_sites_classified : forall s, In s iter_sites ->
  class_det (site_class s) = true \/ In s reviewed_sites.
Proof. exact iter_sites_classified_spec. Qed.
Print Assumptions c20_iter_sites_classified.

(** ... and no reviewed entry is stale *)
Theorem c20_reviewed_sites_current : reviewed_all_current = true.
Proof. exact reviewed_all_current_true. Qed.
Print Assumptions c20_reviewed_sites_current.

(** every hash-container alias of the engine crates is insertion-ordered, fixed-hasher bucket
    ordered, or the fixed-hasher sharded map *)
Theorem c20_det_aliases_ok : det_aliases_ok = true.
Proof. exact det_aliases_ok_true. Qed.
Print Assumptions c20_det_aliases_ok.

(** TIE: clock / rng / CPU-count / pointer-formatting / environment / pid / raw-address reads of
    the current source are exactly the reviewed table (file, kind, count) *)
Theorem c20_nd_sources_reviewed : nd_sources_reviewed = true.
Proof. exact nd_sources_reviewed_true. Qed.
Print Assumptions c20_nd_sources_reviewed.

Theorem c20_no_rng_ptrfmt_pid :
  nd_kind_absent NdRng = true /\ nd_kind_absent NdPtrFmt = true /\ nd_kind_absent NdPid = true.
Proof. exact nd_no_rng_ptrfmt_pid. Qed.
Print Assumptions c20_no_rng_ptrfmt_pid.

(** the host CPU count ([available_parallelism] / num_cpus) is read only where the DEFAULT thread pool
    is sized; everything else consults the pool size (1 in the single-threaded configuration) *)
Theorem c20_host_cpu_count_read_only_for_pool_default :
  host_cpu_reads = [("egglog-bridge/src/lib.rs"%string, NdHostCpus, 1)].
Proof. exact host_cpu_reads_only_pool_default. Qed.
Print Assumptions c20_host_cpu_count_read_only_for_pool_default.

(** non-vacuity *)
Example c20_scans_nonempty :
  50 <= iter_sites_files_scanned /\ 50 <= nd_sources_files_scanned /\ 50 <= List.length iter_sites.
Proof. exact scans_nonempty. Qed.
Example c20_fx_bucket_order_not_insertion : observe class_fx_bucket env_a hist3 <> ref_run hist3.
Proof. exact fx_bucket_order_not_insertion. Qed.
Example c20_fx_bucket_order_depends_on_history :
  exists ops1 ops2, ref_run ops1 = ref_run ops2 /\
    observe class_fx_bucket env_a ops1 <> observe class_fx_bucket env_a ops2.
Proof. exact fx_bucket_order_depends_on_history. Qed.
