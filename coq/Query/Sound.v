(** C02 — soundness of the plan checker: [plan_ok q p = true] implies that the stage machine,
    under EVERY run-time order oracle and on EVERY database, produces exactly the matches of [q]
    (as sets of substitutions restricted to the variables the plan binds, which include every
    variable the actions read). *)
From Coq Require Import List Arith Bool PeanoNat Lia Permutation.
Import ListNotations.
Require Import Verif.Query.Spec Verif.Query.Stages Verif.Query.PlanOk Verif.Query.SpecProofs.

(* ------------------------------------------------------------------ reflection *)

Lemma mem_nat_in x l : mem_nat x l = true <-> In x l.
Proof.
  unfold mem_nat. rewrite existsb_exists. split.
  - intros (y & Hy & He). apply Nat.eqb_eq in He. subst. exact Hy.
  - intros H. exists x. split; [exact H | apply Nat.eqb_refl].
Qed.

Lemma constr_eqb_eq a b : constr_eqb a b = true <-> a = b.
Proof.
  split.
  - destruct a, b; simpl; try discriminate; intros H; apply andb_true_iff in H; destruct H as [H1 H2];
      apply Nat.eqb_eq in H1; apply Nat.eqb_eq in H2; subst; reflexivity.
  - intros <-. destruct a; simpl; rewrite !Nat.eqb_refl; reflexivity.
Qed.

Lemma mem_cs_in k l : mem_cs k l = true <-> In k l.
Proof.
  unfold mem_cs. rewrite existsb_exists. split.
  - intros (y & Hy & He). apply constr_eqb_eq in He. subst. exact Hy.
  - intros H. exists k. split; [exact H | apply constr_eqb_eq; reflexivity].
Qed.

Lemma nodupb_nodup l : nodupb l = true -> NoDup l.
Proof.
  induction l as [|x tl IH]; simpl; intros H; [constructor|].
  apply andb_true_iff in H. destruct H as [H1 H2]. constructor; [|apply IH; exact H2].
  intros Hin. apply mem_nat_in in Hin. rewrite Hin in H1. discriminate.
Qed.

Lemma nat_list_eqb_eq : forall a b, nat_list_eqb a b = true -> a = b.
Proof.
  induction a as [|x a IH]; destruct b as [|y b]; simpl; intros H; try discriminate; [reflexivity|].
  apply andb_true_iff in H. destruct H as [H1 H2]. apply Nat.eqb_eq in H1. subst. f_equal. apply IH. exact H2.
Qed.

Lemma all_cs_forall cs r : all_cs cs r = true <-> forall k, In k cs -> cs_ok r k = true.
Proof. unfold all_cs. apply forallb_forall. Qed.

Lemma map_eq_combine {A B C} (f : A -> C) (g : B -> C) : forall l1 l2,
  map f l1 = map g l2 -> forall a b, In (a, b) (combine l1 l2) -> f a = g b.
Proof.
  induction l1 as [|x l1 IH]; destruct l2 as [|y l2]; simpl; intros H a b Hin; try contradiction.
  inversion H. destruct Hin as [Heq|Hin]; [inversion Heq; subst; assumption | eapply IH; eassumption].
Qed.

Lemma combine_map_eq {A B C} (f : A -> C) (g : B -> C) : forall l1 l2,
  length l1 = length l2 -> (forall a b, In (a, b) (combine l1 l2) -> f a = g b) -> map f l1 = map g l2.
Proof.
  induction l1 as [|x l1 IH]; destruct l2 as [|y l2]; simpl; intros Hl H; try discriminate; [reflexivity|].
  f_equal; [apply H; left; reflexivity | apply IH; [lia | intros; apply H; right; assumption]].
Qed.

Lemma nat_list_eqb_refl l : nat_list_eqb l l = true.
Proof. induction l; simpl; [reflexivity | rewrite Nat.eqb_refl; exact IHl]. Qed.

Lemma nth_map_error {A} (f : A -> nat) : forall l k a, nth_error l k = Some a -> nth k (map f l) 0 = f a.
Proof.
  induction l as [|b tl IH]; intros [|k] a H; simpl in *; try discriminate.
  - inversion H; reflexivity.
  - apply IH. exact H.
Qed.

(* ------------------------------------------------------------------ lookup / bind_env *)

Lemma lookup_app e1 e2 x :
  lookup (e1 ++ e2) x = match lookup e1 x with Some v => Some v | None => lookup e2 x end.
Proof.
  induction e1 as [|[y v] tl IH]; simpl; [reflexivity|].
  destruct (x =? y); [reflexivity | exact IH].
Qed.

Lemma lookup_notin e x : ~ In x (map fst e) -> lookup e x = None.
Proof.
  induction e as [|[y v] tl IH]; simpl; intros H; [reflexivity|].
  destruct (Nat.eqb_spec x y) as [->|Hne]; [exfalso; apply H; left; reflexivity | apply IH; intros Hin; apply H; right; exact Hin].
Qed.

Lemma lookup_nodup_in e x v : NoDup (map fst e) -> In (x, v) e -> lookup e x = Some v.
Proof.
  induction e as [|[y w] tl IH]; simpl; intros Hnd Hin; [contradiction|].
  inversion Hnd; subst. destruct Hin as [Heq|Hin].
  - inversion Heq; subst. rewrite Nat.eqb_refl. reflexivity.
  - destruct (Nat.eqb_spec x y) as [->|Hne].
    + exfalso. apply H1. apply in_map_iff. exists (y, v). split; [reflexivity | exact Hin].
    + apply IH; assumption.
Qed.

Lemma bind_env_keys bind r : map fst (rev (map (fun b : nat * nat => (snd b, col r (fst b))) bind)) = rev (map snd bind).
Proof. rewrite <- map_rev, !map_map. rewrite <- map_rev. reflexivity. Qed.

Lemma lookup_bind_env_other bind r e y :
  ~ In y (map snd bind) -> lookup (bind_env bind r e) y = lookup e y.
Proof.
  intros H. unfold bind_env. rewrite lookup_app. rewrite lookup_notin; [reflexivity|].
  rewrite bind_env_keys. intros Hin. apply H. apply in_rev. exact Hin.
Qed.

Lemma lookup_bind_env_in bind r e c x :
  NoDup (map snd bind) -> In (c, x) bind -> lookup (bind_env bind r e) x = Some (col r c).
Proof.
  intros Hnd Hin. unfold bind_env. rewrite lookup_app.
  rewrite (lookup_nodup_in _ x (col r c)); [reflexivity | |].
  - rewrite bind_env_keys. apply NoDup_rev. exact Hnd.
  - apply in_rev. rewrite rev_involutive. apply in_map_iff. exists (c, x). split; [reflexivity | exact Hin].
Qed.

(* ------------------------------------------------------------------ subsets *)

Lemma length_upd_nth {A} (f : A -> A) : forall l i, length (upd_nth i f l) = length l.
Proof. induction l as [|a tl IH]; intros [|i]; simpl; try reflexivity. rewrite IH. reflexivity. Qed.

Lemma nth_upd_nth_same {A} (f : A -> A) d : forall l i, i < length l -> nth i (upd_nth i f l) d = f (nth i l d).
Proof. induction l as [|a tl IH]; intros [|i] H; simpl in *; try lia; [reflexivity | apply IH; lia]. Qed.

Lemma nth_upd_nth_other {A} (f : A -> A) d : forall l i j, i <> j -> nth j (upd_nth i f l) d = nth j l d.
Proof.
  induction l as [|a tl IH]; intros [|i] [|j] H; simpl; try reflexivity; try lia.
  apply IH. lia.
Qed.

Lemma nth_refine i keep s j :
  nth j (refine i keep s) [] = if i =? j then filter keep (nth j s []) else nth j s [].
Proof.
  unfold refine. destruct (Nat.eqb_spec i j) as [->|Hne].
  - destruct (Nat.lt_ge_cases j (length s)) as [Hlt|Hge].
    + apply nth_upd_nth_same. exact Hlt.
    + rewrite !nth_overflow; [reflexivity | exact Hge | rewrite length_upd_nth; exact Hge].
  - apply nth_upd_nth_other. exact Hne.
Qed.

(** a list of (atom, row predicate) refinements applied in sequence *)
Fixpoint refine_list (fs : list (nat * (row -> bool))) (s : subsets) : subsets :=
  match fs with
  | [] => s
  | f :: tl => refine_list tl (refine (fst f) (snd f) s)
  end.

Lemma refine_list_length : forall fs s, length (refine_list fs s) = length s.
Proof. induction fs as [|f tl IH]; intros s; simpl; [reflexivity|]. rewrite IH. apply length_upd_nth. Qed.

Lemma in_refine_list : forall fs s j r,
  In r (nth j (refine_list fs s) []) <->
  In r (nth j s []) /\ forall f, In f fs -> fst f = j -> snd f r = true.
Proof.
  induction fs as [|f tl IH]; intros s j r; simpl.
  - split; [intros H; split; [exact H | intros ? []] | intros [H _]; exact H].
  - rewrite IH. rewrite nth_refine. split.
    + intros [H1 H2]. destruct (Nat.eqb_spec (fst f) j) as [He|Hne].
      * apply filter_In in H1. destruct H1 as [H1 H1']. split; [exact H1|].
        intros g [<-|Hg] Hj; [exact H1' | apply H2; assumption].
      * split; [exact H1|]. intros g [<-|Hg] Hj; [contradiction | apply H2; assumption].
    + intros [H1 H2]. split.
      * destruct (Nat.eqb_spec (fst f) j) as [He|Hne]; [|exact H1].
        apply filter_In. split; [exact H1 | apply H2; [left; reflexivity | exact He]].
      * intros g Hg Hj. apply H2; [right; exact Hg | exact Hj].
Qed.

Lemma refine_scans_list : forall scans v s,
  refine_scans scans v s = refine_list (map (fun sc => (s_atom sc, scan_keep sc v)) scans) s.
Proof. induction scans as [|sc tl IH]; intros v s; simpl; [reflexivity | apply IH]. Qed.

Lemma refine_mscans_list : forall ms key s,
  refine_mscans ms key s = refine_list (map (fun m => (m_atom m, mscan_keep m key)) ms) s.
Proof. induction ms as [|m tl IH]; intros key s; simpl; [reflexivity | apply IH]. Qed.

Lemma in_refine_scans scans v s j r :
  In r (nth j (refine_scans scans v s) []) <->
  In r (nth j s []) /\ forall sc, In sc scans -> s_atom sc = j -> scan_keep sc v r = true.
Proof.
  rewrite refine_scans_list, in_refine_list. split; intros [H1 H2]; (split; [exact H1|]).
  - intros sc Hsc Hj. apply (H2 (s_atom sc, scan_keep sc v)); [|exact Hj].
    apply in_map_iff. exists sc. split; [reflexivity | exact Hsc].
  - intros f Hf Hj. apply in_map_iff in Hf. destruct Hf as (sc & <- & Hsc). apply H2; assumption.
Qed.

Lemma in_refine_mscans ms key s j r :
  In r (nth j (refine_mscans ms key s) []) <->
  In r (nth j s []) /\ forall m, In m ms -> m_atom m = j -> mscan_keep m key r = true.
Proof.
  rewrite refine_mscans_list, in_refine_list. split; intros [H1 H2]; (split; [exact H1|]).
  - intros m Hm Hj. apply (H2 (m_atom m, mscan_keep m key)); [|exact Hj].
    apply in_map_iff. exists m. split; [reflexivity | exact Hm].
  - intros f Hf Hj. apply in_map_iff in Hf. destruct Hf as (m & <- & Hm). apply H2; assumption.
Qed.

Lemma alive_nth s : alive s = true <-> forall j, j < length s -> nth j s [] <> [].
Proof.
  unfold alive. rewrite forallb_forall. split.
  - intros H j Hj He. specialize (H (nth j s []) (nth_In _ _ Hj)). rewrite He in H. discriminate.
  - intros H l Hl. destruct (In_nth _ _ [] Hl) as (j & Hj & <-).
    specialize (H j Hj). destruct (nth j s []); [contradiction | reflexivity].
Qed.

(* ------------------------------------------------------------------ remove_nth *)

Lemma remove_nth_perm {A} (d : A) : forall l i, i < length l -> Permutation (nth i l d :: remove_nth i l) l.
Proof.
  induction l as [|a tl IH]; intros [|i] H; simpl in *; try lia.
  - apply Permutation_refl.
  - eapply perm_trans; [apply perm_swap|]. apply perm_skip. apply IH. lia.
Qed.

Lemma remove_nth_length {A} : forall (l : list A) i, i < length l -> length (remove_nth i l) = length l - 1.
Proof.
  induction l as [|a tl IH]; intros [|i] H; simpl in *; try lia.
  rewrite IH by lia. lia.
Qed.

(* ------------------------------------------------------------------ query-side facts *)

Lemma has_var_in q i c x :
  has_var (atom_at q i) c x = true ->
  exists a, nth_error (q_atoms q) i = Some a /\ atom_at q i = a /\ In (c, AVar x) (iargs a).
Proof.
  unfold has_var, atom_at. intros H.
  destruct (nth_error (q_atoms q) i) as [a|] eqn:Hn.
  - assert (Ha : nth i (q_atoms q) dummy_atom = a) by (apply nth_error_nth; exact Hn).
    rewrite Ha in H. exists a. split; [reflexivity|]. split; [exact Ha|].
    apply in_iargs. destruct (nth_error (a_args a) c) as [g|]; [|discriminate].
    destruct g as [y|k]; simpl in H; [|discriminate]. apply Nat.eqb_eq in H. subst. reflexivity.
  - rewrite nth_overflow in H by (apply nth_error_None; exact Hn). simpl in H.
    destruct c; discriminate.
Qed.

Lemma atom_at_nth q i a : nth_error (q_atoms q) i = Some a -> atom_at q i = a.
Proof. intros H. unfold atom_at. apply nth_error_nth. exact H. Qed.

(** a justified constraint holds on every row that satisfies the atom *)
Lemma cs_just_sound a t w k : row_ok a t w -> cs_just a k = true -> cs_ok w k = true.
Proof.
  intros [Hcs Hargs] H. unfold cs_just in H. apply orb_true_iff in H. destruct H as [H|H].
  - apply mem_cs_in in H. apply (proj1 (all_cs_forall _ _) Hcs). exact H.
  - destruct k as [c1 c2|c kk| | | |]; try discriminate.
    + destruct (nth_error (a_args a) c1) as [[x|]|] eqn:H1; try discriminate.
      unfold has_var in H. destruct (nth_error (a_args a) c2) as [[y|]|] eqn:H2; try discriminate.
      simpl in H. apply Nat.eqb_eq in H. subst y.
      apply in_iargs in H1. apply in_iargs in H2.
      pose proof (Hargs _ _ H1) as E1. pose proof (Hargs _ _ H2) as E2. simpl in E1, E2.
      rewrite E1 in E2. inversion E2 as [E]. simpl. rewrite E. apply Nat.eqb_refl.
    + unfold has_const in H. destruct (nth_error (a_args a) c) as [[|k']|] eqn:H1; try discriminate.
      apply Nat.eqb_eq in H. subst k'. apply in_iargs in H1. pose proof (Hargs _ _ H1) as E. simpl in E.
      simpl. rewrite E. apply Nat.eqb_refl.
Qed.

Lemma vfacts_bound i st c x : In (c, x) (stage_vfacts i st) -> In x (bound st).
Proof.
  destruct st as [y scans|cov cs bind others]; simpl.
  - intros H. apply in_flat_map in H. destruct H as (sc & _ & H).
    destruct (s_atom sc =? i); [|destruct H]. destruct H as [H|[]]. inversion H. left; reflexivity.
  - intros H. apply in_app_or in H. destruct H as [H|H].
    + destruct (cov =? i); [|destruct H]. apply in_map_iff. exists (c, x). split; [reflexivity | exact H].
    + apply in_flat_map in H. destruct H as (m & _ & H). destruct (m_atom m =? i); [|destruct H].
      apply in_flat_map in H. destruct H as ([c' ox] & Hp & H). simpl in H.
      destruct ox as [x'|]; [|destruct H]. destruct H as [H|[]]. inversion H; subst.
      unfold mscan_pairs in Hp. apply in_map_iff in Hp. destruct Hp as ([cc kk] & Heq & _).
      simpl in Heq. inversion Heq as [[E1 E2]].
      destruct (nth_error bind kk) as [b|] eqn:Hb; [|discriminate]. simpl in E2. inversion E2; subst.
      apply in_map. eapply nth_error_In. exact Hb.
Qed.

(** column-equality closure is sound on any row satisfying the evaluated constraints *)
Lemma eq_step_sound cs w S c :
  (forall k, In k cs -> cs_ok w k = true) -> In c (eq_step cs S) ->
  exists c0, In c0 S /\ col w c = col w c0.
Proof.
  intros Hcs H. unfold eq_step in H. apply in_app_or in H. destruct H as [H|H].
  - exists c. split; [exact H | reflexivity].
  - apply in_flat_map in H. destruct H as (k & Hk & H).
    destruct k as [a b| | | | |]; try destruct H.
    pose proof (Hcs _ Hk) as E. simpl in E. apply Nat.eqb_eq in E.
    apply in_app_or in H. destruct H as [H|H].
    + destruct (mem_nat a S) eqn:Ha; [|destruct H]. destruct H as [<-|[]].
      exists a. split; [apply mem_nat_in; exact Ha | symmetry; exact E].
    + destruct (mem_nat b S) eqn:Hb; [|destruct H]. destruct H as [<-|[]].
      exists b. split; [apply mem_nat_in; exact Hb | exact E].
Qed.

Lemma closure_sound cs w : forall n S c,
  (forall k, In k cs -> cs_ok w k = true) -> In c (closure cs n S) ->
  exists c0, In c0 S /\ col w c = col w c0.
Proof.
  induction n as [|n IH]; intros S c Hcs H; simpl in H.
  - exists c. split; [exact H | reflexivity].
  - destruct (IH _ _ Hcs H) as (c1 & H1 & E1).
    destruct (eq_step_sound _ _ _ _ Hcs H1) as (c0 & H0 & E0).
    exists c0. split; [exact H0 | congruence].
Qed.

Lemma first_col_in a x c : In c (first_col a x) -> In (c, AVar x) (iargs a).
Proof.
  unfold first_col. destruct (find _ (iargs a)) as [[c' g]|] eqn:Hf; [|intros []].
  intros [<-|[]]. apply find_some in Hf. destruct Hf as [Hin Hv]. simpl in Hv.
  destruct g as [y|]; simpl in Hv; [|discriminate]. apply Nat.eqb_eq in Hv. subst. exact Hin.
Qed.

Lemma occurs_in_iargs a c x : In (c, AVar x) (iargs a) -> occurs_in a x = true.
Proof.
  intros H. apply in_iargs in H. unfold occurs_in. apply existsb_exists.
  exists (AVar x). split; [eapply nth_error_In; exact H | simpl; apply Nat.eqb_refl].
Qed.

Lemma in_iatoms q i a : In (i, a) (iatoms q) <-> nth_error (q_atoms q) i = Some a.
Proof.
  unfold iatoms. rewrite in_combine_seq, Nat.sub_0_r. split; [intros [_ H]; exact H | intros H; split; [lia | exact H]].
Qed.

Lemma step_intersect_in x sc0 scans' e s r0 :
  In r0 (nth (s_atom sc0) s []) ->
  alive (refine_scans (sc0 :: scans') (col r0 (s_col sc0)) s) = true ->
  In ((x, col r0 (s_col sc0)) :: e, refine_scans (sc0 :: scans') (col r0 (s_col sc0)) s)
     (step (Intersect x (sc0 :: scans')) e s).
Proof.
  intros Hr Hal. unfold step. apply in_flat_map. exists r0. split; [exact Hr|].
  cbv zeta. rewrite Hal. left; reflexivity.
Qed.

Lemma step_fused_in cov cs bind others e s r :
  In r (nth cov s []) -> all_cs cs r = true ->
  alive (refine_mscans others (map (fun b : nat * nat => col r (fst b)) bind) (upd_nth cov (fun _ => [r]) s)) = true ->
  In (bind_env bind r e,
      refine_mscans others (map (fun b : nat * nat => col r (fst b)) bind) (upd_nth cov (fun _ => [r]) s))
     (step (Fused cov cs bind others) e s).
Proof.
  intros Hr Hcs Hal. unfold step. apply in_flat_map. exists r. split; [exact Hr|].
  rewrite Hcs. cbv zeta. rewrite Hal. left; reflexivity.
Qed.

(* ------------------------------------------------------------------ the main argument *)

Section Sound.
  Variable q : query.
  Variable p : plan.
  Variable d : db.
  Variable ch : chooser.
  Hypothesis OK : plan_ok q p = true.

  Let atoms := q_atoms q.
  Let N := length atoms.
  Let s0 := init_subs p d.

  Lemma ok_parts :
    p_tabs p = map a_tab atoms /\
    (forall h k, In h (p_headers p) -> In k (h_cs h) -> cs_just (atom_at q (h_atom h)) k = true) /\
    (forall st, In st (p_stages p) -> stage_valid q st = true) /\
    NoDup (plan_vars p) /\
    (forall i a, nth_error atoms i = Some a -> atom_covered q p i a = true) /\
    (forall x, In x (q_out q) -> In x (plan_vars p)).
  Proof.
    pose proof OK as K. unfold plan_ok in K.
    apply andb_true_iff in K. destruct K as [K K6].
    apply andb_true_iff in K. destruct K as [K K5].
    apply andb_true_iff in K. destruct K as [K K4].
    apply andb_true_iff in K. destruct K as [K K3].
    apply andb_true_iff in K. destruct K as [K1 K2].
    repeat split.
    - apply nat_list_eqb_eq. exact K1.
    - intros h k Hh Hk. rewrite forallb_forall in K2. specialize (K2 _ Hh). rewrite forallb_forall in K2. apply K2. exact Hk.
    - intros st Hst. rewrite forallb_forall in K3. apply K3. exact Hst.
    - apply nodupb_nodup. exact K4.
    - intros i a Hn. rewrite forallb_forall in K5. apply (K5 (i, a)). apply in_iatoms. exact Hn.
    - intros x Hx. rewrite forallb_forall in K6. apply mem_nat_in. apply K6. exact Hx.
  Qed.

  Lemma init_len : length s0 = N.
  Proof.
    unfold s0, init_subs. rewrite map_length, combine_length, seq_length, Nat.min_id.
    destruct ok_parts as (Ht & _). rewrite Ht, map_length. reflexivity.
  Qed.

  Lemma init_nth i a : nth_error atoms i = Some a ->
    nth i s0 [] = filter (header_keep (p_headers p) i) (get_tab d (a_tab a)).
  Proof.
    intros Hn. unfold s0, init_subs.
    destruct ok_parts as (Ht & _).
    assert (Hlt : i < length atoms) by (apply nth_error_Some; congruence).
    set (f := fun it : nat * nat => filter (header_keep (p_headers p) (fst it)) (get_tab d (snd it))).
    assert (Hlen : length (p_tabs p) = length atoms) by (rewrite Ht, map_length; reflexivity).
    rewrite (nth_indep _ [] (f (0, 0))) by (rewrite map_length, combine_length, seq_length, Nat.min_id, Hlen; exact Hlt).
    rewrite map_nth. rewrite combine_nth by (rewrite seq_length; reflexivity).
    rewrite seq_nth by (rewrite Hlen; exact Hlt).
    unfold f. simpl. rewrite Ht.
    rewrite (nth_indep _ 0 (a_tab dummy_atom)) by (rewrite map_length; exact Hlt).
    rewrite map_nth. fold atoms. rewrite (nth_error_nth _ _ _ Hn). reflexivity.
  Qed.

  (* -------------------------------------------------------------- soundness: nothing else fires *)

  Definition facts_hold (e : env) (done : list stage) (s : subsets) : Prop :=
    forall st i r, In st done -> In r (nth i s []) ->
      (forall c x, In (c, x) (stage_vfacts i st) -> lookup e x = Some (col r c)) /\
      (forall k, In k (stage_cfacts i st) -> cs_ok r k = true).

  Definition sub_of (s' s : subsets) : Prop := forall i r, In r (nth i s' []) -> In r (nth i s []).

  Lemma step_sound st e s e' s' done :
    In (e', s') (step st e s) ->
    NoDup (bound st) ->
    (forall st' x, In st' done -> In x (bound st') -> ~ In x (bound st)) ->
    facts_hold e done s ->
    facts_hold e' (st :: done) s' /\ sub_of s' s /\ alive s' = true /\ length s' = length s.
  Proof.
    intros Hstep Hnd Hdisj Hfh.
    assert (Hold : forall s1 e1, sub_of s1 s ->
              (forall y, ~ In y (bound st) -> lookup e1 y = lookup e y) ->
              forall st' i r, In st' done -> In r (nth i s1 []) ->
                (forall c x, In (c, x) (stage_vfacts i st') -> lookup e1 x = Some (col r c)) /\
                (forall k, In k (stage_cfacts i st') -> cs_ok r k = true)).
    { intros s1 e1 Hsub Hlk st' i r Hst' Hr.
      destruct (Hfh st' i r Hst' (Hsub _ _ Hr)) as [Hv Hc]. split; [|exact Hc].
      intros c x Hcx. rewrite Hlk; [apply Hv; exact Hcx|].
      apply (Hdisj st' x Hst'). eapply vfacts_bound. exact Hcx. }
    destruct st as [x scans|cov cs bind others]; simpl in Hstep.
    - (* Intersect *)
      destruct scans as [|sc0 scans']; [destruct Hstep|].
      apply in_flat_map in Hstep. destruct Hstep as (r0 & Hr0 & Hstep).
      set (v := col r0 (s_col sc0)) in *. remember (sc0 :: scans') as scans eqn:Hscans.
      destruct (alive (refine_scans scans v s)) eqn:Hal; [|destruct Hstep].
      destruct Hstep as [Heq|[]]. inversion Heq; subst e' s'. clear Heq.
      assert (Hsub : sub_of (refine_scans scans v s) s).
      { intros i r Hr. apply in_refine_scans in Hr. exact (proj1 Hr). }
      split; [|split; [|split]].
      + intros st' i r [<-|Hst'] Hr.
        * apply in_refine_scans in Hr. destruct Hr as [Hr Hk]. split.
          -- intros c y Hcy. simpl in Hcy. apply in_flat_map in Hcy. destruct Hcy as (sc & Hsc & Hcy).
             destruct (Nat.eqb_spec (s_atom sc) i) as [Hi|]; [|destruct Hcy].
             destruct Hcy as [Hcy|[]]. inversion Hcy; subst c y.
             specialize (Hk sc Hsc Hi). unfold scan_keep in Hk. apply andb_true_iff in Hk.
             destruct Hk as [Hk _]. apply Nat.eqb_eq in Hk. rewrite lookup_cons_eq, Hk. reflexivity.
          -- intros k Hkk. simpl in Hkk. apply in_flat_map in Hkk. destruct Hkk as (sc & Hsc & Hkk).
             destruct (Nat.eqb_spec (s_atom sc) i) as [Hi|]; [|destruct Hkk].
             specialize (Hk sc Hsc Hi). unfold scan_keep in Hk. apply andb_true_iff in Hk.
             destruct Hk as [_ Hk]. apply (proj1 (all_cs_forall _ _) Hk). exact Hkk.
        * apply (Hold _ _ Hsub); [|exact Hst'|exact Hr].
          intros y Hy. apply lookup_cons_neq. intros ->. apply Hy. left; reflexivity.
      + exact Hsub.
      + exact Hal.
      + rewrite refine_scans_list. apply refine_list_length.
    - (* Fused *)
      apply in_flat_map in Hstep. destruct Hstep as (r0 & Hr0 & Hstep).
      destruct (all_cs cs r0) eqn:Hcs0; [|destruct Hstep].
      set (key := map (fun b : nat * nat => col r0 (fst b)) bind) in *.
      set (s1 := upd_nth cov (fun _ => [r0]) s) in *.
      destruct (alive (refine_mscans others key s1)) eqn:Hal; [|destruct Hstep].
      destruct Hstep as [Heq|[]]. inversion Heq; subst e' s'. clear Heq.
      assert (Hcovlt : cov < length s).
      { destruct (Nat.lt_ge_cases cov (length s)) as [H|H]; [exact H|].
        rewrite nth_overflow in Hr0 by exact H. destruct Hr0. }
      assert (Hs1 : forall i r, In r (nth i s1 []) -> In r (nth i s []) /\ (i = cov -> r = r0)).
      { intros i r Hr. unfold s1 in Hr. destruct (Nat.eq_dec cov i) as [<-|Hne].
        - rewrite nth_upd_nth_same in Hr by exact Hcovlt. destruct Hr as [<-|[]]. split; [exact Hr0 | reflexivity].
        - rewrite nth_upd_nth_other in Hr by exact Hne. split; [exact Hr | intros ->; contradiction]. }
      assert (Hsub : sub_of (refine_mscans others key s1) s).
      { intros i r Hr. apply in_refine_mscans in Hr. apply Hs1. exact (proj1 Hr). }
      simpl in Hnd.
      split; [|split; [|split]].
      + intros st' i r [<-|Hst'] Hr.
        * apply in_refine_mscans in Hr. destruct Hr as [Hr Hk]. destruct (Hs1 _ _ Hr) as [_ Hcov]. split.
          -- intros c y Hcy. simpl in Hcy. apply in_app_or in Hcy. destruct Hcy as [Hcy|Hcy].
             ++ destruct (Nat.eqb_spec cov i) as [Hi|]; [|destruct Hcy].
                rewrite (Hcov (eq_sym Hi)). apply lookup_bind_env_in; assumption.
             ++ apply in_flat_map in Hcy. destruct Hcy as (m & Hm & Hcy).
                destruct (Nat.eqb_spec (m_atom m) i) as [Hi|]; [|destruct Hcy].
                apply in_flat_map in Hcy. destruct Hcy as ([c' ox] & Hp & Hcy). simpl in Hcy.
                destruct ox as [x'|]; [|destruct Hcy]. destruct Hcy as [Hcy|[]]. inversion Hcy; subst c' x'.
                unfold mscan_pairs in Hp. apply in_map_iff in Hp. destruct Hp as ([cc kk] & Heq & Hck).
                simpl in Heq. inversion Heq as [[E1 E2]]. subst cc.
                destruct (nth_error bind kk) as [[cb xb]|] eqn:Hb; [|discriminate]. simpl in E2. inversion E2; subst xb.
                specialize (Hk m Hm Hi). unfold mscan_keep in Hk. apply andb_true_iff in Hk. destruct Hk as [Hk _].
                apply nat_list_eqb_eq in Hk.
                pose proof (map_eq_combine _ _ _ _ Hk _ _ Hck) as E. simpl in E.
                rewrite E. unfold key.
                assert (Hkey : nth kk (map (fun b : nat * nat => col r0 (fst b)) bind) 0 = col r0 cb).
                { exact (nth_map_error (fun b : nat * nat => col r0 (fst b)) bind kk _ Hb). }
                rewrite Hkey. apply lookup_bind_env_in; [assumption | eapply nth_error_In; exact Hb].
          -- intros k Hkk. simpl in Hkk. apply in_app_or in Hkk. destruct Hkk as [Hkk|Hkk].
             ++ destruct (Nat.eqb_spec cov i) as [Hi|]; [|destruct Hkk].
                rewrite (Hcov (eq_sym Hi)). apply (proj1 (all_cs_forall _ _) Hcs0). exact Hkk.
             ++ apply in_flat_map in Hkk. destruct Hkk as (m & Hm & Hkk).
                destruct (Nat.eqb_spec (m_atom m) i) as [Hi|]; [|destruct Hkk].
                specialize (Hk m Hm Hi). unfold mscan_keep in Hk. apply andb_true_iff in Hk. destruct Hk as [_ Hk].
                apply (proj1 (all_cs_forall _ _) Hk). exact Hkk.
        * apply (Hold _ _ Hsub); [|exact Hst'|exact Hr].
          intros y Hy. apply lookup_bind_env_other. exact Hy.
      + exact Hsub.
      + exact Hal.
      + rewrite refine_mscans_list, refine_list_length. unfold s1. apply length_upd_nth.
  Qed.

  Lemma nodup_app_inv {A} (a b : list A) :
    NoDup (a ++ b) -> NoDup a /\ NoDup b /\ forall x, In x a -> ~ In x b.
  Proof.
    induction a as [|y a IH]; simpl; intros H.
    - split; [constructor | split; [exact H | intros ? []]].
    - inversion H as [|? ? Hy Hnd]; subst. destruct (IH Hnd) as (Ha & Hb & Hd).
      split; [constructor; [intros Hin; apply Hy; apply in_or_app; left; exact Hin | exact Ha]|].
      split; [exact Hb|]. intros x [<-|Hx]; [intros Hin; apply Hy; apply in_or_app; right; exact Hin | apply Hd; exact Hx].
  Qed.

  Lemma run_sound : forall n rem done e s sg,
    length rem = n -> Permutation (done ++ rem) (p_stages p) ->
    facts_hold e done s -> sub_of s s0 -> alive s = true -> length s = N ->
    In sg (run ch n rem e s) ->
    exists s', facts_hold sg (p_stages p) s' /\ sub_of s' s0 /\ alive s' = true /\ length s' = N.
  Proof.
    induction n as [|n IH]; intros rem done e s sg Hlen Hperm Hfh Hsub Hal Hls Hin.
    - destruct rem; [|discriminate]. simpl in Hin. destruct Hin as [<-|[]].
      exists s. split; [|auto]. rewrite app_nil_r in Hperm.
      intros st i r Hst Hr. apply Hfh; [|exact Hr]. eapply Permutation_in; [apply Permutation_sym; exact Hperm | exact Hst].
    - destruct rem as [|st0 rem']; [discriminate|].
      set (rem := st0 :: rem') in *.
      unfold run in Hin; fold run in Hin. unfold rem in Hin at 1.
      set (i := ch e s rem mod length rem) in *.
      assert (Hi : i < length rem) by (apply Nat.mod_upper_bound; unfold rem; simpl; lia).
      set (st := nth i rem st0) in *.
      apply in_flat_map in Hin. destruct Hin as ([e1 s1] & Hstep & Hin). simpl in Hin.
      pose proof (remove_nth_perm st0 rem i Hi) as Hp1. fold st in Hp1.
      assert (Hperm2 : Permutation (st :: done ++ remove_nth i rem) (p_stages p)).
      { eapply perm_trans; [|exact Hperm]. eapply perm_trans; [apply Permutation_middle|].
        apply Permutation_app_head. exact Hp1. }
      destruct ok_parts as (_ & _ & _ & Hnd & _).
      unfold plan_vars in Hnd.
      assert (Hnd2 : NoDup (bound st ++ flat_map bound (done ++ remove_nth i rem))).
      { eapply Permutation_NoDup; [|exact Hnd]. apply Permutation_sym.
        change (bound st ++ flat_map bound (done ++ remove_nth i rem)) with (flat_map bound (st :: done ++ remove_nth i rem)).
        apply Permutation_flat_map. exact Hperm2. }
      destruct (nodup_app_inv _ _ Hnd2) as (Hndst & _ & Hdisj).
      destruct (step_sound st e s e1 s1 done Hstep Hndst) as (Hfh1 & Hsub1 & Hal1 & Hlen1).
      + intros st' x Hst' Hx Hxst. apply (Hdisj x Hxst).
        apply in_flat_map. exists st'. split; [apply in_or_app; left; exact Hst' | exact Hx].
      + exact Hfh.
      + apply (IH (remove_nth i rem) (st :: done) e1 s1 sg).
        * rewrite remove_nth_length by exact Hi. unfold rem in *. simpl in *. lia.
        * exact Hperm2.
        * exact Hfh1.
        * intros j r Hr. apply Hsub, Hsub1. exact Hr.
        * exact Hal1.
        * lia.
        * exact Hin.
  Qed.

  Lemma in_combine_nth_error {A B} : forall (l1 : list A) (l2 : list B) a b,
    In (a, b) (combine l1 l2) -> exists i, nth_error l1 i = Some a /\ nth_error l2 i = Some b.
  Proof.
    induction l1 as [|x l1 IH]; destruct l2 as [|y l2]; simpl; intros a b H; try contradiction.
    destruct H as [H|H].
    - inversion H; subst. exists 0. split; reflexivity.
    - destruct (IH _ _ _ H) as (i & H1 & H2). exists (S i). split; assumption.
  Qed.

  Lemma Forall2_nth {A B} (P : A -> B -> Prop) (dflt : B) : forall (l1 : list A) (l2 : list B),
    length l1 = length l2 -> (forall i a, nth_error l1 i = Some a -> P a (nth i l2 dflt)) -> Forall2 P l1 l2.
  Proof.
    induction l1 as [|x l1 IH]; destruct l2 as [|y l2]; simpl; intros Hl H; try discriminate; constructor.
    - apply (H 0 x eq_refl).
    - apply IH; [lia|]. intros i a Hi. apply (H (S i) a Hi).
  Qed.

  Lemma Forall2_nth_inv {A B} (P : A -> B -> Prop) (dflt : B) : forall (l1 : list A) (l2 : list B),
    Forall2 P l1 l2 -> forall i a, nth_error l1 i = Some a -> P a (nth i l2 dflt).
  Proof.
    induction 1 as [|x y l1 l2 Hxy HF IH]; intros [|i] a Hi; simpl in *; try discriminate.
    - inversion Hi; subst. exact Hxy.
    - apply IH. exact Hi.
  Qed.

  Lemma hd_in (l : list row) : l <> [] -> In (hd [] l) l.
  Proof. destruct l; [contradiction | intros _; left; reflexivity]. Qed.

  Lemma closure_nil cs : forall n, closure cs n [] = [].
  Proof.
    assert (E : eq_step cs [] = []).
    { unfold eq_step. simpl. induction cs as [|k tl IHc]; simpl; [reflexivity|]. destruct k; simpl; exact IHc. }
    induction n as [|n IH]; simpl; [reflexivity|].
    rewrite E. exact IH.
  Qed.

  (** from a final state of the stage machine to a match of the query *)
  Lemma final_to_match sg s' :
    facts_hold sg (p_stages p) s' -> sub_of s' s0 -> alive s' = true -> length s' = N ->
    exists t, In t (matches q d) /\ agree (plan_vars p) sg t.
  Proof.
    intros Hfh Hsub Hal Hlen.
    destruct ok_parts as (Htabs & Hhdr & Hvalid & Hnd & Hcov & _).
    set (ws := map (hd []) s').
    assert (Hws : forall i, nth i ws [] = hd [] (nth i s' [])).
    { intros i. unfold ws. exact (map_nth (@hd row []) s' [] i). }
    assert (F1 : forall i a, nth_error atoms i = Some a -> In (nth i ws []) (nth i s' [])).
    { intros i a Hn. rewrite Hws. apply hd_in. apply (proj1 (alive_nth _) Hal).
      rewrite Hlen. apply nth_error_Some. fold atoms. congruence. }
    assert (F2 : forall i a, nth_error atoms i = Some a ->
              In (nth i ws []) (get_tab d (a_tab a)) /\ header_keep (p_headers p) i (nth i ws []) = true).
    { intros i a Hn. pose proof (Hsub _ _ (F1 i a Hn)) as H. rewrite (init_nth i a Hn) in H.
      apply filter_In in H. exact H. }
    assert (F3 : forall i a, nth_error atoms i = Some a ->
              forall k, In k (atom_ecs p i) -> cs_ok (nth i ws []) k = true).
    { intros i a Hn k Hk. unfold atom_ecs in Hk. apply in_app_or in Hk. destruct Hk as [Hk|Hk].
      - unfold header_cfacts in Hk. apply in_flat_map in Hk. destruct Hk as (h & Hh & Hk).
        destruct (h_atom h =? i) eqn:Hi; [|destruct Hk].
        destruct (F2 i a Hn) as [_ Hkeep]. unfold header_keep in Hkeep. rewrite forallb_forall in Hkeep.
        specialize (Hkeep h Hh). rewrite Hi in Hkeep. apply (proj1 (all_cs_forall _ _) Hkeep). exact Hk.
      - apply in_flat_map in Hk. destruct Hk as (st & Hst & Hk).
        apply (proj2 (Hfh st i _ Hst (F1 i a Hn))). exact Hk. }
    assert (F4 : forall i a, nth_error atoms i = Some a ->
              forall c x, In (c, x) (atom_evs p i) -> lookup sg x = Some (col (nth i ws []) c)).
    { intros i a Hn c x Hcx. unfold atom_evs in Hcx. apply in_flat_map in Hcx. destruct Hcx as (st & Hst & Hcx).
      apply (proj1 (Hfh st i _ Hst (F1 i a Hn))). exact Hcx. }
    (* what coverage gives for every variable position *)
    assert (F6 : forall i a c x, nth_error atoms i = Some a -> In (c, AVar x) (iargs a) ->
              (In x (plan_vars p) /\ lookup sg x = Some (col (nth i ws []) c)) \/
              (~ In x (plan_vars p) /\ only_here q i x = true /\
               exists c0, In c0 (first_col a x) /\ col (nth i ws []) c = col (nth i ws []) c0)).
    { intros i a c x Hn Hcx. pose proof (Hcov i a Hn) as Hc. unfold atom_covered in Hc.
      apply andb_true_iff in Hc. destruct Hc as [_ Hc]. rewrite forallb_forall in Hc.
      specialize (Hc (c, AVar x) Hcx). simpl in Hc. apply mem_nat_in in Hc.
      destruct (closure_sound _ (nth i ws []) _ _ _ (F3 i a Hn) Hc) as (c0 & Hc0 & E).
      unfold seeds in Hc0. destruct (mem_nat x (plan_vars p)) eqn:Hx.
      - left. split; [apply mem_nat_in; exact Hx|].
        apply in_map_iff in Hc0. destruct Hc0 as ([c0' x'] & E0 & Hf). simpl in E0. subst c0'.
        apply filter_In in Hf. destruct Hf as [Hf Hx']. simpl in Hx'. apply Nat.eqb_eq in Hx'. subst x'.
        rewrite E. apply (F4 i a Hn). exact Hf.
      - right. split; [intros Hin; apply mem_nat_in in Hin; congruence|].
        destruct (only_here q i x) eqn:Ho; [|destruct Hc0].
        split; [reflexivity|]. exists c0. split; [exact Hc0 | exact E]. }
    assert (Hlenws : length atoms = length ws) by (unfold ws; rewrite map_length; symmetry; exact Hlen).
    assert (HL : Forall2 (local_ok d) atoms ws).
    { apply (Forall2_nth _ []); [exact Hlenws|]. intros i a Hn.
      pose proof (Hcov i a Hn) as Hc. unfold atom_covered in Hc.
      apply andb_true_iff in Hc. destruct Hc as [Hc1 Hc2]. rewrite forallb_forall in Hc1, Hc2.
      split; [exact (proj1 (F2 i a Hn))|]. split.
      - apply all_cs_forall. intros k Hk. apply (F3 i a Hn). apply mem_cs_in. apply Hc1. exact Hk.
      - intros c k Hck. specialize (Hc2 (c, AConst k) Hck). simpl in Hc2. apply mem_cs_in in Hc2.
        pose proof (F3 i a Hn _ Hc2) as E. simpl in E. apply Nat.eqb_eq in E. exact E. }
    assert (HC : pair_consistent (combine atoms ws)).
    { intros a w b w' c c' x Ha Hb Hca Hcb.
      destruct (in_combine_nth_error _ _ _ _ Ha) as (i & Hia & Hiw).
      destruct (in_combine_nth_error _ _ _ _ Hb) as (j & Hjb & Hjw).
      apply (nth_error_nth _ _ []) in Hiw. apply (nth_error_nth _ _ []) in Hjw. subst w w'.
      destruct (F6 i a c x Hia Hca) as [[Hx E1]|(Hx & Ho & c0 & Hc0 & E1)];
        destruct (F6 j b c' x Hjb Hcb) as [[Hx' E2]|(Hx' & Ho' & c0' & Hc0' & E2)]; try contradiction.
      - rewrite E1 in E2. inversion E2. reflexivity.
      - (* unbound variable: it occurs in one atom only *)
        unfold only_here in Ho. rewrite forallb_forall in Ho.
        specialize (Ho (j, b) (proj2 (in_iatoms q j b) Hjb)). simpl in Ho.
        rewrite (occurs_in_iargs b c' x Hcb) in Ho. simpl in Ho. rewrite orb_false_r in Ho.
        apply Nat.eqb_eq in Ho. subst j. fold atoms in Hia, Hjb. rewrite Hia in Hjb. inversion Hjb; subst b.
        rewrite E1, E2. unfold first_col in Hc0, Hc0'.
        destruct (find _ (iargs a)); [|destruct Hc0].
        destruct Hc0 as [<-|[]]. destruct Hc0' as [<-|[]]. reflexivity. }
    destruct (matches_complete q d ws HL HC) as (t & Ht & Hwit).
    exists t. split; [exact Ht|].
    intros x Hx. unfold plan_vars in Hx. apply in_flat_map in Hx. destruct Hx as (st & Hst & Hx).
    pose proof (Hvalid st Hst) as Hv.
    assert (Hpos : exists i a c, nth_error atoms i = Some a /\ In (c, AVar x) (iargs a) /\ In (c, x) (stage_vfacts i st)).
    { destruct st as [y scans|cov cs bind others]; simpl in Hx, Hv.
      - destruct Hx as [<-|[]]. apply andb_true_iff in Hv. destruct Hv as [Hne Hv].
        destruct scans as [|sc scans']; [discriminate|]. simpl in Hv. apply andb_true_iff in Hv. destruct Hv as [Hv _].
        unfold scan_valid in Hv. apply andb_true_iff in Hv. destruct Hv as [Hv _].
        destruct (has_var_in _ _ _ _ Hv) as (a & Hn & _ & Hin).
        exists (s_atom sc), a, (s_col sc). split; [exact Hn|]. split; [exact Hin|].
        simpl. rewrite Nat.eqb_refl. left; reflexivity.
      - apply in_map_iff in Hx. destruct Hx as ([c x'] & E & Hb). simpl in E. subst x'.
        apply andb_true_iff in Hv. destruct Hv as [Hv _]. apply andb_true_iff in Hv. destruct Hv as [_ Hv].
        rewrite forallb_forall in Hv. specialize (Hv _ Hb). simpl in Hv.
        destruct (has_var_in _ _ _ _ Hv) as (a & Hn & _ & Hin).
        exists cov, a, c. split; [exact Hn|]. split; [exact Hin|].
        simpl. rewrite Nat.eqb_refl. apply in_or_app. left. exact Hb. }
    destruct Hpos as (i & a & c & Hn & Hin & Hvf).
    rewrite (proj1 (Hfh st i _ Hst (F1 i a Hn)) c x Hvf).
    pose proof (Forall2_nth_inv _ [] _ _ Hwit i a Hn) as [_ [_ Hargs]].
    symmetry. exact (Hargs c (AVar x) Hin).
  Qed.

  Lemma plan_sound_dir sg : In sg (run_plan ch p d) ->
    exists t, In t (matches q d) /\ agree (plan_vars p) sg t.
  Proof.
    unfold run_plan. fold s0. destruct (alive s0) eqn:Hal; [|intros []].
    intros Hin.
    destruct (run_sound (length (p_stages p)) (p_stages p) [] [] s0 sg eq_refl (Permutation_refl _)) as (s' & H1 & H2 & H3 & H4).
    - intros st i r [].
    - intros i r H; exact H.
    - exact Hal.
    - apply init_len.
    - exact Hin.
    - eapply final_to_match; eassumption.
  Qed.

  (* -------------------------------------------------------------- completeness: no match is lost *)

  Lemma lookup_in e x v : lookup e x = Some v -> In (x, v) e.
  Proof.
    induction e as [|[y w] tl IH]; simpl; [discriminate|].
    destruct (Nat.eqb_spec x y) as [->|]; intros H; [inversion H; left; reflexivity | right; apply IH; exact H].
  Qed.

  Lemma lookup_in_some e x : In x (map fst e) -> lookup e x <> None.
  Proof.
    induction e as [|[y w] tl IH]; simpl; [intros []|].
    destruct (Nat.eqb_spec x y) as [->|Hne]; [intros _; discriminate|].
    intros [H|H]; [simpl in H; congruence | apply IH; exact H].
  Qed.

  Section Complete.
    Variable t : env.
    Variable ws : list row.
    Hypothesis Hwit : witness q d t ws.

    Lemma wit_nth i a : nth_error atoms i = Some a ->
      In (nth i ws []) (get_tab d (a_tab a)) /\ row_ok a t (nth i ws []).
    Proof. intros Hn. exact (Forall2_nth_inv _ [] _ _ Hwit i a Hn). Qed.

    Definition keeps (s : subsets) : Prop :=
      length s = N /\ forall i a, nth_error atoms i = Some a -> In (nth i ws []) (nth i s []).

    Lemma keeps_alive s : keeps s -> alive s = true.
    Proof.
      intros [Hl Hk]. apply alive_nth. intros j Hj He.
      destruct (nth_error atoms j) as [a|] eqn:Hn.
      - pose proof (Hk j a Hn) as H. rewrite He in H. destruct H.
      - apply nth_error_None in Hn. fold N in Hn. lia.
    Qed.

    Lemma var_val i a c x : nth_error atoms i = Some a -> has_var (atom_at q i) c x = true ->
      lookup t x = Some (col (nth i ws []) c).
    Proof.
      intros Hn Hv. destruct (has_var_in _ _ _ _ Hv) as (a' & Hn' & _ & Hin).
      fold atoms in Hn'. rewrite Hn in Hn'. inversion Hn'; subst a'.
      destruct (wit_nth i a Hn) as [_ [_ Hargs]]. exact (Hargs _ _ Hin).
    Qed.

    Lemma just_ok i a cs : nth_error atoms i = Some a ->
      forallb (cs_just (atom_at q i)) cs = true -> all_cs cs (nth i ws []) = true.
    Proof.
      intros Hn H. apply all_cs_forall. intros k Hk. rewrite forallb_forall in H.
      specialize (H k Hk). rewrite (atom_at_nth q i a Hn) in H.
      destruct (wit_nth i a Hn) as [_ Hrow]. eapply cs_just_sound; eassumption.
    Qed.

    Lemma step_complete st e s :
      stage_valid q st = true -> ext e t -> keeps s ->
      exists e' s', In (e', s') (step st e s) /\ ext e' t /\ keeps s' /\
        (forall x, In x (bound st) -> lookup e' x <> None) /\
        (forall x, lookup e x <> None -> lookup e' x <> None).
    Proof.
      intros Hv Hext [Hlen Hk].
      destruct st as [x scans|cov cs bind others]; simpl in Hv.
      - apply andb_true_iff in Hv. destruct Hv as [Hne Hv]. rewrite forallb_forall in Hv.
        destruct scans as [|sc0 scans']; [simpl in Hne; discriminate|]. clear Hne.
        remember (sc0 :: scans') as scans eqn:Hscans.
        assert (Hsc0 : In sc0 scans) by (subst scans; left; reflexivity).
        pose proof (Hv sc0 Hsc0) as Hv0. unfold scan_valid in Hv0. apply andb_true_iff in Hv0. destruct Hv0 as [Hv0 _].
        destruct (has_var_in _ _ _ _ Hv0) as (a0 & Hn0 & _ & _). fold atoms in Hn0.
        set (w0 := nth (s_atom sc0) ws []).
        set (v := col w0 (s_col sc0)).
        assert (Htx : lookup t x = Some v) by (apply (var_val _ a0); assumption).
        set (s' := refine_scans scans v s).
        assert (Hk' : keeps s').
        { split; [unfold s'; rewrite refine_scans_list, refine_list_length; exact Hlen|].
          intros i a Hn. unfold s'. apply in_refine_scans. split; [apply (Hk i a Hn)|].
          intros sc Hsc Hi. pose proof (Hv sc Hsc) as Hvs. unfold scan_valid in Hvs. rewrite Hi in Hvs.
          apply andb_true_iff in Hvs. destruct Hvs as [Hvs1 Hvs2].
          unfold scan_keep. apply andb_true_iff. split.
          - pose proof (var_val i a _ _ Hn Hvs1) as E. rewrite Htx in E. inversion E as [E']. apply Nat.eqb_refl.
          - apply (just_ok i a); assumption. }
        exists ((x, v) :: e), s'. split; [|split; [|split; [|split]]].
        + pose proof (keeps_alive _ Hk') as Hal'. unfold s', v in *. rewrite Hscans in *.
          apply step_intersect_in; [apply (Hk _ a0 Hn0) | exact Hal'].
        + intros y vy Hy. destruct (Nat.eq_dec y x) as [->|Hne].
          * rewrite lookup_cons_eq in Hy. inversion Hy; subst. exact Htx.
          * rewrite lookup_cons_neq in Hy by exact Hne. apply Hext. exact Hy.
        + exact Hk'.
        + intros y [<-|[]]. rewrite lookup_cons_eq. discriminate.
        + intros y Hy. destruct (Nat.eq_dec y x) as [->|Hne];
            [rewrite lookup_cons_eq; discriminate | rewrite lookup_cons_neq by exact Hne; exact Hy].
      - apply andb_true_iff in Hv. destruct Hv as [Hv Hv4]. apply andb_true_iff in Hv. destruct Hv as [Hv Hv3].
        apply andb_true_iff in Hv. destruct Hv as [Hv1 Hv2]. apply Nat.ltb_lt in Hv1.
        rewrite forallb_forall in Hv3, Hv4.
        destruct (nth_error atoms cov) as [ac|] eqn:Hnc; [|apply nth_error_None in Hnc; fold atoms in Hv1; lia].
        set (w := nth cov ws []).
        set (key := map (fun b : nat * nat => col w (fst b)) bind).
        set (s1 := upd_nth cov (fun _ => [w]) s).
        set (s' := refine_mscans others key s1).
        assert (Hbind : forall c y, In (c, y) bind -> lookup t y = Some (col w c)).
        { intros c y Hb. apply (var_val cov ac); [exact Hnc | exact (Hv3 _ Hb)]. }
        assert (Hcovlt : cov < length s) by (rewrite Hlen; exact Hv1).
        assert (Hk' : keeps s').
        { split; [unfold s', s1; rewrite refine_mscans_list, refine_list_length, length_upd_nth; exact Hlen|].
          intros i a Hn. unfold s'. apply in_refine_mscans. split.
          - unfold s1. destruct (Nat.eq_dec cov i) as [<-|Hne].
            + rewrite nth_upd_nth_same by exact Hcovlt. left; reflexivity.
            + rewrite nth_upd_nth_other by exact Hne. apply (Hk i a Hn).
          - intros m Hm Hi. pose proof (Hv4 m Hm) as Hvm. unfold mscan_valid in Hvm. rewrite Hi in Hvm.
            apply andb_true_iff in Hvm. destruct Hvm as [Hvm Hvm3]. apply andb_true_iff in Hvm. destruct Hvm as [Hvm1 Hvm2].
            apply Nat.eqb_eq in Hvm1. rewrite forallb_forall in Hvm2.
            unfold mscan_keep. apply andb_true_iff. split; [|apply (just_ok i a); assumption].
            assert (E : map (col (nth i ws [])) (m_cols m) = map (fun k => nth k key 0) (m_key m)).
            { apply combine_map_eq; [exact Hvm1|]. intros c kk Hck.
              assert (Hp : In (c, option_map snd (nth_error bind kk)) (mscan_pairs bind m)).
              { unfold mscan_pairs. apply in_map_iff. exists (c, kk). split; [reflexivity | exact Hck]. }
              specialize (Hvm2 _ Hp). simpl in Hvm2.
              destruct (nth_error bind kk) as [[cb xb]|] eqn:Hb; [|discriminate]. simpl in Hvm2.
              pose proof (var_val i a _ _ Hn Hvm2) as E1.
              pose proof (Hbind cb xb (nth_error_In _ _ Hb)) as E2. rewrite E1 in E2. inversion E2 as [E3].
              unfold key. rewrite (nth_map_error (fun b : nat * nat => col w (fst b)) bind kk _ Hb). simpl. exact E3. }
            rewrite E. apply nat_list_eqb_refl. }
        exists (bind_env bind w e), s'. split; [|split; [|split; [|split]]].
        + pose proof (keeps_alive _ Hk') as Hal'. unfold s', s1, key in *.
          apply step_fused_in; [apply (Hk cov ac Hnc) | exact (just_ok cov ac cs Hnc Hv2) | exact Hal'].
        + intros y vy Hy. unfold bind_env in Hy. rewrite lookup_app in Hy.
          destruct (lookup (rev (map (fun b : nat * nat => (snd b, col w (fst b))) bind)) y) as [v'|] eqn:Hl.
          * inversion Hy; subst v'. apply lookup_in in Hl. apply in_rev in Hl. apply in_map_iff in Hl.
            destruct Hl as ([c y'] & E & Hb). simpl in E. inversion E; subst. apply Hbind. exact Hb.
          * apply Hext. exact Hy.
        + exact Hk'.
        + intros y Hy. simpl in Hy. unfold bind_env. rewrite lookup_app.
          destruct (lookup (rev (map (fun b : nat * nat => (snd b, col w (fst b))) bind)) y) eqn:Hl; [discriminate|].
          exfalso. revert Hl. apply lookup_in_some. rewrite bind_env_keys. apply in_rev. rewrite rev_involutive. exact Hy.
        + intros y Hy. unfold bind_env. rewrite lookup_app.
          destruct (lookup (rev (map (fun b : nat * nat => (snd b, col w (fst b))) bind)) y); [discriminate | exact Hy].
    Qed.

    Lemma run_complete : forall n rem e s,
      length rem = n -> (forall st, In st rem -> stage_valid q st = true) -> ext e t -> keeps s ->
      exists sg, In sg (run ch n rem e s) /\ ext sg t /\
        (forall x, In x (flat_map bound rem) -> lookup sg x <> None) /\
        (forall x, lookup e x <> None -> lookup sg x <> None).
    Proof.
      induction n as [|n IH]; intros rem e s Hlen Hval Hext Hk.
      - destruct rem; [|discriminate]. exists e. simpl. split; [left; reflexivity|]. split; [exact Hext|]. split; [intros ? [] | auto].
      - destruct rem as [|st0 rem']; [discriminate|].
        remember (st0 :: rem') as rem eqn:Hrem.
        assert (Hne : length rem <> 0) by (subst rem; simpl; lia).
        set (i := ch e s rem mod length rem).
        assert (Hi : i < length rem) by (apply Nat.mod_upper_bound; exact Hne).
        set (st := nth i rem st0).
        pose proof (remove_nth_perm st0 rem i Hi) as Hp. fold st in Hp.
        assert (Hst : In st rem) by (apply nth_In; exact Hi).
        destruct (step_complete st e s (Hval st Hst) Hext Hk) as (e1 & s1 & Hstep & Hext1 & Hk1 & Hb1 & Hp1).
        destruct (IH (remove_nth i rem) e1 s1) as (sg & Hin & Hextg & Hbg & Hpg).
        + rewrite remove_nth_length by exact Hi. lia.
        + intros st' Hst'. apply Hval. eapply Permutation_in; [exact Hp | right; exact Hst'].
        + exact Hext1.
        + exact Hk1.
        + exists sg. split; [|split; [exact Hextg | split]].
          * rewrite Hrem. unfold run; fold run. rewrite <- Hrem. fold i. fold st.
            apply in_flat_map. exists (e1, s1). split; [exact Hstep | exact Hin].
          * intros x Hx. apply in_flat_map in Hx. destruct Hx as (st' & Hst' & Hx).
            apply (Permutation_in _ (Permutation_sym Hp)) in Hst'. destruct Hst' as [<-|Hst'].
            -- apply Hpg. apply Hb1. exact Hx.
            -- apply Hbg. apply in_flat_map. exists st'. split; assumption.
          * intros x Hx. apply Hpg, Hp1. exact Hx.
    Qed.
  End Complete.

  Lemma plan_complete_dir t : In t (matches q d) ->
    exists sg, In sg (run_plan ch p d) /\ agree (plan_vars p) sg t.
  Proof.
    intros Ht. destruct (matches_sound _ _ _ Ht) as (ws & Hwit).
    destruct ok_parts as (_ & Hhdr & Hvalid & _).
    assert (Hk0 : keeps ws s0).
    { split; [apply init_len|]. intros i a Hn. rewrite (init_nth i a Hn).
      destruct (wit_nth t ws Hwit i a Hn) as [Hin Hrow]. apply filter_In. split; [exact Hin|].
      unfold header_keep. apply forallb_forall. intros h Hh.
      destruct (Nat.eqb_spec (h_atom h) i) as [Hi|]; [|reflexivity].
      apply all_cs_forall. intros k Hk. pose proof (Hhdr h k Hh Hk) as Hj. rewrite Hi in Hj.
      rewrite (atom_at_nth q i a Hn) in Hj. eapply cs_just_sound; eassumption. }
    destruct (run_complete t ws Hwit (length (p_stages p)) (p_stages p) [] s0 eq_refl Hvalid) as (sg & Hin & Hext & Hb & _).
    - intros x v H. discriminate.
    - exact Hk0.
    - exists sg. split.
      + unfold run_plan. fold s0. rewrite (keeps_alive ws _ Hk0). exact Hin.
      + intros x Hx. specialize (Hb x Hx). destruct (lookup sg x) as [v|] eqn:Hl; [|contradiction].
        symmetry. apply Hext. exact Hl.
  Qed.
End Sound.

(** MAIN THEOREM: a plan accepted by the checker computes, on every database and under every
    run-time stage order, exactly the matches of the query (as sets of substitutions restricted
    to the variables the plan binds). *)
Theorem plan_ok_sound : forall q p, plan_ok q p = true ->
  forall (d : db) (ch : chooser), sem_eq (plan_vars p) (run_plan ch p d) (matches q d).
Proof.
  intros q p OK d ch. split.
  - intros s Hs. eapply plan_sound_dir; eassumption.
  - intros t Ht. eapply plan_complete_dir; eassumption.
Qed.

(** every variable the actions read is bound by the plan, so the rule fires for exactly the
    matches, seen through the variables the actions can observe *)
Corollary plan_ok_sound_out : forall q p, plan_ok q p = true ->
  forall (d : db) (ch : chooser), sem_eq (q_out q) (run_plan ch p d) (matches q d).
Proof.
  intros q p OK d ch. destruct (plan_ok_sound q p OK d ch) as [H1 H2].
  assert (Hsub : forall x, In x (q_out q) -> In x (plan_vars p)).
  { intros x Hx. unfold plan_ok in OK. apply andb_true_iff in OK. destruct OK as [_ K].
    rewrite forallb_forall in K. apply mem_nat_in. apply K. exact Hx. }
  split.
  - intros s Hs. destruct (H1 s Hs) as (t & Ht & Ha). exists t. split; [exact Ht | intros x Hx; apply Ha, Hsub, Hx].
  - intros t Ht. destruct (H2 t Ht) as (s & Hs & Ha). exists s. split; [exact Hs | intros x Hx; apply Ha, Hsub, Hx].
Qed.

(** two accepted plans for the same query fire for the same substitutions (on the variables the
    actions read), whatever the strategies and run-time orders that produced and ran them *)
Lemma plans_agree : forall q p1 p2, plan_ok q p1 = true -> plan_ok q p2 = true ->
  forall (d : db) (ch1 ch2 : chooser) s1, In s1 (run_plan ch1 p1 d) ->
    exists s2, In s2 (run_plan ch2 p2 d) /\ agree (q_out q) s1 s2.
Proof.
  intros q p1 p2 H1 H2 d ch1 ch2 s1 Hs1.
  destruct (plan_ok_sound_out q p1 H1 d ch1) as [A1 _].
  destruct (plan_ok_sound_out q p2 H2 d ch2) as [_ B2].
  destruct (A1 s1 Hs1) as (t & Ht & Ha). destruct (B2 t Ht) as (s2 & Hs2 & Hb).
  exists s2. split; [exact Hs2|]. intros x Hx. rewrite (Ha x Hx), (Hb x Hx). reflexivity.
Qed.
