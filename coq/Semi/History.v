(** C03: "each rule keeps its own last-run timestamp" — no match is lost or repeated over ANY
    history of runs of different rulesets.

    Abstraction (justified by [Semi/Delta.v]: the union over focus atoms of "focus >= frontier,
    earlier atoms < frontier" is exactly the set of matches whose NEWEST atom is >= frontier): a
    match of rule [r] is identified with the timestamp [t] of its newest atom; running [r] with
    frontier [lo] when the clock says [hi] fires exactly the matches of [r] with [lo <= t < hi].
    A history is a list of runs; every run names the rules of its batch and the clock value.
    [gen/SourceFacts.v] says which frontier `run_rules_impl` uses NOW ([semi_frontier_src]) and
    whether it advances the rule's own stamp ([semi_frontier_advances_own]). *)
From Coq Require Import List Arith Bool Lia.
Import ListNotations.
Require Import Verif.gen.SourceFacts.

Record run := mkRun { r_rules : list nat; r_next : nat }.

(** a fired window: rule, frontier (inclusive), clock (exclusive) *)
Definition window := (nat * nat * nat)%type.

Definition upd (st : nat -> nat) (r v : nat) : nat -> nat := fun x => if Nat.eqb x r then v else st x.

(** frontier handed to the rule's query, as a function of the source fact *)
Definition frontier (src : frontier_src) (st : nat -> nat) (batch : list nat) (r : nat) : nat :=
  match src with
  | FOwnLastRun => st r
  | FNotOwn => st (last batch r)   (* e.g. one frontier for the whole batch: the last rule's *)
  end.

(** one batch: rules are processed in order; each fires its window and (if the source says so)
    advances its own stamp to the clock *)
Fixpoint run_batch (src : frontier_src) (adv : bool) (batch : list nat) (rs : list nat) (next : nat)
                   (st : nat -> nat) (ws : list window) : (nat -> nat) * list window :=
  match rs with
  | [] => (st, ws)
  | r :: rs' =>
      let w := (r, frontier src st batch r, next) in
      run_batch src adv batch rs' next (if adv then upd st r next else st) (w :: ws)
  end.

Fixpoint run_history (src : frontier_src) (adv : bool) (h : list run) (st : nat -> nat) (ws : list window)
  : (nat -> nat) * list window :=
  match h with
  | [] => (st, ws)
  | rn :: h' =>
      let '(st', ws') := run_batch src adv (r_rules rn) (r_rules rn) (r_next rn) st ws in
      run_history src adv h' st' ws'
  end.

(** how many times the match (r, t) has fired *)
Definition covers (r t : nat) (w : window) : bool :=
  let '(r', lo, hi) := w in Nat.eqb r' r && Nat.leb lo t && Nat.ltb t hi.
Definition fired (r t : nat) (ws : list window) : nat := length (filter (covers r t) ws).

(** clocks never go back, and no stamp is ahead of the clock *)
Fixpoint clocks_from (c : nat) (h : list run) : Prop :=
  match h with
  | [] => True
  | rn :: h' => c <= r_next rn /\ clocks_from (r_next rn) h'
  end.

Definition inv (c : nat) (st : nat -> nat) (ws : list window) : Prop :=
  (forall r, st r <= c) /\ (forall r t, fired r t ws = if Nat.ltb t (st r) then 1 else 0).

Lemma fired_cons r t w ws : fired r t (w :: ws) = (if covers r t w then 1 else 0) + fired r t ws.
Proof. unfold fired. cbn [filter]. destruct (covers r t w); reflexivity. Qed.

Lemma run_batch_own_inv batch : forall rs next st ws c,
  c <= next -> inv c st ws ->
  let '(st', ws') := run_batch FOwnLastRun true batch rs next st ws in
  inv next st' ws' /\ (forall r, In r rs -> st' r = next) /\ (forall r, ~ In r rs -> st' r = st r).
Proof.
  induction rs as [|r0 rs IH]; intros next st ws c Hc [Hle Hf]; cbn [run_batch].
  - split; [split|split].
    + intro r. specialize (Hle r). lia.
    + exact Hf.
    + intros r [].
    + reflexivity.
  - cbn [frontier].
    assert (Hinv' : inv next (upd st r0 next) ((r0, st r0, next) :: ws)).
    { split.
      - intro r. unfold upd. destruct (Nat.eqb_spec r r0); [lia|]. specialize (Hle r). lia.
      - intros r t. rewrite fired_cons, Hf. unfold covers, upd.
        destruct (Nat.eqb_spec r0 r) as [E|N].
        + subst r0. rewrite Nat.eqb_refl. cbn [andb].
          specialize (Hle r).
          destruct (Nat.leb_spec (st r) t), (Nat.ltb_spec t next), (Nat.ltb_spec t (st r)); cbn; lia.
        + cbn [andb]. destruct (Nat.eqb_spec r r0); [congruence|]. reflexivity. }
    specialize (IH next (upd st r0 next) ((r0, st r0, next) :: ws) next (le_n _) Hinv').
    destruct (run_batch FOwnLastRun true batch rs next (upd st r0 next) ((r0, st r0, next) :: ws)) as [st' ws'].
    destruct IH as [I1 [I2 I3]]. split; [exact I1|split].
    + intros r [E|Hin].
      * subst r0. destruct (in_dec Nat.eq_dec r rs) as [Hi|Hn]; [apply I2; exact Hi|].
        rewrite (I3 r Hn). unfold upd. rewrite Nat.eqb_refl. reflexivity.
      * apply I2; exact Hin.
    + intros r Hn. rewrite I3 by (intro; apply Hn; right; assumption).
      unfold upd. destruct (Nat.eqb_spec r r0); [exfalso; apply Hn; left; congruence|reflexivity].
Qed.

Lemma run_history_own_inv : forall h st ws c,
  clocks_from c h -> inv c st ws ->
  let '(st', ws') := run_history FOwnLastRun true h st ws in
  exists c', inv c' st' ws'.
Proof.
  induction h as [|rn h IH]; intros st ws c Hc Hi; cbn [run_history].
  - exists c. exact Hi.
  - destruct Hc as [Hc1 Hc2].
    pose proof (run_batch_own_inv (r_rules rn) (r_rules rn) (r_next rn) st ws c Hc1 Hi) as B.
    destruct (run_batch FOwnLastRun true (r_rules rn) (r_rules rn) (r_next rn) st ws) as [st1 ws1].
    destruct B as [B1 _]. apply (IH st1 ws1 (r_next rn) Hc2 B1).
Qed.

(** THE THEOREM, for the frontier of the source as written now: over any history of batches
    (any rules in any batch, repeated, in any order) with a clock that never goes back, every match
    whose newest atom is older than its rule's stamp has fired EXACTLY once, and no other match has
    fired at all *)
Theorem own_frontier_exactly_once : forall h,
  clocks_from 0 h ->
  let '(st, ws) := run_history FOwnLastRun true h (fun _ => 0) [] in
  forall r t, fired r t ws = if Nat.ltb t (st r) then 1 else 0.
Proof.
  intros h Hc.
  pose proof (run_history_own_inv h (fun _ => 0) [] 0 Hc) as H.
  assert (I0 : inv 0 (fun _ => 0) []).
  { split; [intro; lia|]. intros r t. reflexivity. }
  specialize (H I0).
  destruct (run_history FOwnLastRun true h (fun _ => 0) []) as [st ws].
  destruct H as [c' [_ Hf]]. exact Hf.
Qed.

(** ... and a rule that has just been run is up to date with the clock: nothing older than the
    clock is pending for it *)
Theorem own_frontier_run_catches_up : forall batch next st ws c r,
  c <= next -> inv c st ws -> In r batch ->
  let '(st', ws') := run_batch FOwnLastRun true batch batch next st ws in
  forall t, t < next -> fired r t ws' = 1.
Proof.
  intros batch next st ws c r Hc Hi Hin.
  pose proof (run_batch_own_inv batch batch next st ws c Hc Hi) as B.
  destruct (run_batch FOwnLastRun true batch batch next st ws) as [st' ws'].
  destruct B as [[_ Hf] [B2 _]]. intros t Ht. rewrite Hf, (B2 r Hin).
  destruct (Nat.ltb_spec t next); [reflexivity|lia].
Qed.

(** the source as written now uses that frontier *)
Lemma source_frontier_is_own : semi_frontier_src = FOwnLastRun /\ semi_frontier_advances_own = true.
Proof. split; vm_compute; reflexivity. Qed.

Theorem source_frontier_exactly_once : forall h,
  clocks_from 0 h ->
  let '(st, ws) := run_history semi_frontier_src semi_frontier_advances_own h (fun _ => 0) [] in
  forall r t, fired r t ws = if Nat.ltb t (st r) then 1 else 0.
Proof.
  destruct source_frontier_is_own as [-> ->]. exact own_frontier_exactly_once.
Qed.

(** non-vacuity: with ONE frontier for the whole batch (the last rule's stamp) a match is lost:
    rule 1 runs alone at clock 5, then rules 0 and 1 run together at clock 7; the match of rule 0
    stamped 2 never fires although rule 0's stamp is 7 *)
Lemma batch_frontier_loses_a_match :
  let '(st, ws) := run_history FNotOwn true [mkRun [1] 5; mkRun [0; 1] 7] (fun _ => 0) [] in
  fired 0 2 ws = 0 /\ st 0 = 7.
Proof. vm_compute. split; reflexivity. Qed.
