(** C09 — Bad input is rejected cleanly: no panic, no partial effect.
    This file only pins statements and prints their assumptions.

    What is theorem-backed: statements about `step` of Session/Pipeline.v, the faithful model of the
    command pipeline over the DECLARATION STATE (tied to the code by kernel-evaluated cases).
    What is NOT a theorem: "the real engine never panics" — every Gallina function is total; that
    clause is decided by harness/src/bin/h_session.rs (catch_unwind, child processes) and is testing. *)
From Coq Require Import List Arith Bool.
Import ListNotations.
Require Import Verif.Session.Pipeline Verif.Session.Proofs.

(** The unrestricted claim "rejected before execution => no effect" is FALSE for the faithful model
    (finding F2, what remains of it after repository commit 473a35e). Witnesses, each replayed on the
    real engine by the harness:
    - (datatype d (va i64) (vb nope)): the sort and the first constructor stay declared;
    - (ruleset r) then (function r (i64) i64 :merge (min old new)): typechecks, is then rejected by
      check_shadowing, the signature stays in TypeInfo;
    - (let $g 1) then (let $g "s"): rejected by check_shadowing, but the global's sort changed. *)
Theorem c09_reject_no_effect_refuted :
  (exists s' e, step init (CDatatype (U 11) [(U 12, [U 0]); (U 13, [U 14])]) = (s', RReject e)
                /\ ~ sess_decl_eq init s')
  /\ rejected_with_effect (fst (step init (CRuleset (U 15))))
       (CFunction (U 15) [U 0] (U 0) (Some (EPrim PMin [EVar (U 2); EVar (U 3)])))
  /\ rejected_with_effect (fst (step init (CAct (ALet (G 16) EInt)))) (CAct (ALet (G 16) EStr)).
Proof.
  exact (conj bad_variant_leaves_sort_and_constructor
           (conj shadowing_after_typecheck_leaves_signature second_let_changes_global_sort)).
Qed.
Print Assumptions c09_reject_no_effect_refuted.

(** F2 inside the model: the leftover signature makes a later, well-typed command panic
    (lib.rs:2700 `self.functions[name]`) *)
Theorem c09_leftover_panics :
  snd (run init [CDatatype (U 11) [(U 12, [U 0]); (U 13, [U 14])]; CAct (ADo (ECall (U 12) [EInt]))])
    = [RReject (ELaterPart EUndefinedSort); RPanic]
  /\ snd (run init [CRuleset (U 15); CFunction (U 15) [U 0] (U 0) (Some (EPrim PMin [EVar (U 2); EVar (U 3)]));
                    CAct (ASet (U 15) [EInt] EInt)])
    = [RAccept; RReject EShadowing; RPanic].
Proof. exact (conj f2_replay_datatype f2_replay_shadowing). Qed.
Print Assumptions c09_leftover_panics.

(** repaired by 473a35e (the model follows the repaired order): a function with a bad or
    self-referential (F9) merge expression, a constructor with a non-eq output and a duplicate
    declaration with another signature are rejected with NO effect *)
Theorem c09_function_decl_now_atomic :
  step init (CFunction (U 10) [U 0] (U 0) (Some (ECall (U 14) [EVar (U 2); EVar (U 3)]))) = (init, RReject EBadMerge)
  /\ step init (CFunction (U 10) [U 0] (U 0) (Some (ECall (U 10) [EVar (U 2)]))) = (init, RReject EBadMerge)
  /\ step init (CConstructor (U 10) [U 0] (U 0)) = (init, RReject ECtorOutputNotSort)
  /\ (let s := fst (step init (CFunction (U 10) [U 0] (U 0) (Some (EPrim PMin [EVar (U 2); EVar (U 3)])))) in
      step s (CFunction (U 10) [U 0; U 0] (U 0) (Some (EPrim PMin [EVar (U 2); EVar (U 3)]))) = (s, RReject EDupFunction)).
Proof. exact (conj bad_merge_clean (conj self_merge_clean (conj ctor_non_eq_clean dup_other_sig_clean))). Qed.
Print Assumptions c09_function_decl_now_atomic.

(** PARTIAL 1: for every state and every command whose typechecking is pure — ruleset, rule, run,
    check, push, pop, print-size, and the top-level actions set / union / expression — a rejection
    leaves the whole session state (including the push stack and the symbol generator) unchanged. *)
Theorem c09_reject_no_effect_partial : forall s c s' e,
  pure_cmd c = true -> step s c = (s', RReject e) -> s' = s.
Proof. exact reject_no_effect_pure. Qed.
Print Assumptions c09_reject_no_effect_partial.

(** PARTIAL 2: single-part declarations (sort, presort instance, function, constructor, let) rejected
    by the typechecker (undefined sort, sort already bound, name bound as a function, unknown presort /
    bad presort arguments, duplicate function, constructor output not an eq-sort, bad merge expression,
    ill-typed let body) leave the state unchanged. The only excluded errors are the late ones:
    EShadowing (raised after typechecking has recorded the declaration) and ELaterPart of compound
    declarations (datatype, relation) — exactly the remaining F2 witnesses. *)
Theorem c09_reject_no_effect_partial_decl : forall s c s' e,
  single_decl c = true -> step s c = (s', RReject e) -> early e = true -> s' = s.
Proof. exact reject_no_effect_early. Qed.
Print Assumptions c09_reject_no_effect_partial_decl.

(** an accepted declaration adds exactly the declared names, which were not declared before *)
Theorem c09_accept_extends_sort : forall F st n s',
  step (F, st) (CSort n) = (s', RAccept) ->
  ~ In n (sort_names F) /\ ~ In n (func_names F) /\ ~ In n (seen F) /\
  s' = (with_seen (with_sorts F ((n, KEq) :: sorts F)) (n :: seen F), st).
Proof. exact accept_sort_extends. Qed.
Print Assumptions c09_accept_extends_sort.

Theorem c09_accept_extends_function : forall F st n ins out m s',
  step (F, st) (CFunction n ins out m) = (s', RAccept) ->
  ~ In n (sort_names F) /\ ~ In n (func_names F) /\ ~ In n (seen F) /\ ~ In n (table_names F) /\
  (forall i, In i (out :: ins) -> In i (sort_names F)) /\
  s' = (with_tables (with_seen (with_funcs F (funcs F ++ [(n, {| f_ctor := false; f_ins := ins; f_out := out |})]))
                               (n :: seen F)) ((n, false) :: tables F), st).
Proof. exact accept_function_extends. Qed.
Print Assumptions c09_accept_extends_function.

Theorem c09_accept_extends_ruleset : forall F st n s',
  step (F, st) (CRuleset n) = (s', RAccept) ->
  ~ In n (seen F) /\ rs_lookup (rulesets F) (Some n) = None /\
  s' = (with_rulesets (with_seen F (n :: seen F)) ((Some n, []) :: rulesets F), st).
Proof. exact accept_ruleset_extends. Qed.
Print Assumptions c09_accept_extends_ruleset.

(** Panics need an inconsistent declaration state: if every function and global the typechecker
    knows has a table ([fn_closed]), then no command that only USES declarations (rule, check, run,
    push, pop, print-size, set / union / expression actions) reaches the `self.functions[name]`
    panic. The initial state is closed; the rejected datatype declaration of F2 breaks closedness. *)
Theorem c09_no_panic_partial : forall F st c,
  fn_closed F -> uses_only c = true -> snd (step (F, st) c) <> RPanic.
Proof. exact no_panic_when_closed. Qed.
Print Assumptions c09_no_panic_partial.

Theorem c09_reject_breaks_closed_refuted :
  fn_closed init_frame /\ exists s' e, step init (CDatatype (U 11) [(U 12, [U 0]); (U 13, [U 14])]) = (s', RReject e)
               /\ ~ fn_closed (fst s').
Proof. exact (conj closed_init f2_breaks_closed). Qed.
Print Assumptions c09_reject_breaks_closed_refuted.

(** a run stops at the first panic and otherwise yields one result per command *)
Theorem c09_run_total : forall cs s,
  length (snd (run s cs)) <= length cs /\
  (~ In RPanic (snd (run s cs)) -> length (snd (run s cs)) = length cs).
Proof. intros; split; [apply run_length | apply run_no_panic_full]. Qed.
Print Assumptions c09_run_total.

(** non-vacuity: the partial theorems' hypotheses are met by non-trivial states and commands *)
Example c09_example_pure_reject :
  let s := fst (run init [CDatatype (U 20) [(U 21, []); (U 22, [U 20])]; CRelation (U 23) [U 0]; CRuleset (U 24)]) in
  pure_cmd (CAct (ASet (U 22) [ECall (U 21) []] (ECall (U 21) []))) = true
  /\ step s (CAct (ASet (U 22) [ECall (U 21) []] (ECall (U 21) []))) = (s, RReject ESetConstructor)
  /\ step s (CRule 0 (Some (U 25)) [FHolds (ECall (U 23) [EVar (U 30)])] []) = (s, RReject ENoSuchRuleset)
  /\ step s (CAct (AUnion (ECall (U 23) [EInt]) (ECall (U 23) [EInt]))) = (s, RReject ENonUnionable)
  /\ step s (CRule 1 None [FHolds (ECall (U 23) [EVar (U 21)])] []) = (s, RReject EShadowing)
  /\ snd (step s (CRule 2 (Some (U 24)) [FEq (EVar (U 31)) (ECall (U 22) [EVar (U 32)])]
                        [AUnion (EVar (U 31)) (EVar (U 32))])) = RAccept.
Proof. vm_compute. repeat split; reflexivity. Qed.

Example c09_example_early_reject :
  let s := fst (run init [CSort (U 20)]) in
  step s (CFunction (U 21) [U 99] (U 0) None) = (s, RReject EUndefinedSort)
  /\ step s (CSortPre (U 22) PsVec [U 99]) = (s, RReject EUndefinedSort)
  /\ step s (CSort (U 20)) = (s, RReject ESortAlreadyBound).
Proof. vm_compute. repeat split; reflexivity. Qed.

(** the third F2 witness replayed: a second `let` of a global with another sort is rejected by
    check_shadowing, `global_sorts` keeps the new sort, and a later query on the global panics
    (lib.rs:2776 `query_table(..).unwrap()`) — found by the correspondence cases (seed 2) *)
Example c09_example_stale_global_panics :
  snd (run init [CDatatype (U 20) [(U 21, [])]; CAct (ALet (G 16) (ECall (U 21) []));
                 CAct (ALet (G 16) EInt); CCheck [FEq (EVar (G 16)) (EVar (G 16))]])
  = [RAccept; RAccept; RReject EShadowing; RPanic].
Proof. vm_compute. reflexivity. Qed.
